package main

// C11: scalar helper functions of pkg/expressions/stdlib, driven through the public API:
// stdlib.NewStdKeyBuilder().Compile("{f a b ...}") + BuildKey(ctx); arguments are supplied as
// constants of the template or as match groups {0},{1},... of the context; the observable is the
// output string (or a panic, at compile time or at evaluation time).

import (
	"encoding/hex"
	"encoding/json"
	"fmt"
	"math"
	"path/filepath"
	"sort"
	"strconv"
	"strings"
	"time"

	"rare/pkg/expressions/stdlib"
	. "verifh/lib"
)

type c11Arg struct {
	Const bool   `json:"const"`
	Val   string `json:"val_hex"`
	Text  string `json:"text,omitempty"` // readable copy (not used on replay)
}
type c11In struct {
	Fn   string   `json:"fn"`
	Args []c11Arg `json:"args"`
}
type c11Out struct {
	Outcome  string `json:"outcome"` // ok | panic | hang (did not return within c11CallLimit)
	Panic    bool   `json:"panic"`
	Hang     bool   `json:"hang,omitempty"`
	Out      string `json:"out_hex"`
	Text     string `json:"out_text,omitempty"`
	Note     string `json:"note,omitempty"`
	Template string `json:"template"`
}

type c11Ctx struct{ g []string }

func (c *c11Ctx) GetMatch(i int) string {
	if i >= 0 && i < len(c.g) {
		return c.g[i]
	}
	return ""
}
func (c *c11Ctx) GetKey(k string) string { return "" }

func unhex(s string) string { b, _ := hex.DecodeString(s); return string(b) }

// a value can be written as a constant of the template when it is ASCII without the template's
// own meta characters (escaping is C09's subject); everything else travels as a match group
func constSafe(s string) bool {
	for i := 0; i < len(s); i++ {
		c := s[i]
		if c >= 128 || c == '\\' || c == '"' || c == '{' || c == '}' {
			return false
		}
	}
	return true
}

func bare(s string) bool {
	if s == "" {
		return false
	}
	for i := 0; i < len(s); i++ {
		c := s[i]
		if !(c >= 'a' && c <= 'z' || c >= 'A' && c <= 'Z' || c >= '0' && c <= '9' || strings.IndexByte("+-.,_:/%<>=", c) >= 0) {
			return false
		}
	}
	return true
}

func c11Template(in c11In) (string, []string) {
	var sb strings.Builder
	sb.WriteString("{" + in.Fn)
	var groups []string
	for i, a := range in.Args {
		v := unhex(a.Val)
		sb.WriteByte(' ')
		if a.Const {
			if bare(v) && (len(v)+i)%2 == 0 {
				sb.WriteString(v)
			} else {
				sb.WriteString("\"" + v + "\"")
			}
		} else {
			sb.WriteString(fmt.Sprintf("{%d}", len(groups)))
			groups = append(groups, v)
		}
	}
	sb.WriteString("}")
	return sb.String(), groups
}

// every call is evaluated on its own goroutine with a time limit: no helper of the property may
// panic or fail to return, and a helper that spins must not take the harness with it
const c11CallLimit = 2 * time.Second

// argument class of a call, used to stop evaluating a family of inputs after one of them hung (the hung
// goroutine keeps spinning until the harness exits): helper, arity, and per argument the sign and
// digit count of an integer text, or "s" for anything else
func c11Class(in c11In) string {
	var sb strings.Builder
	fmt.Fprintf(&sb, "%s/%d", in.Fn, len(in.Args))
	for _, a := range in.Args {
		v := unhex(a.Val)
		if _, err := strconv.ParseInt(v, 10, 64); err == nil {
			sign := "+"
			if strings.HasPrefix(v, "-") {
				sign = "-"
			}
			fmt.Fprintf(&sb, ":%s%d", sign, len(strings.TrimLeft(v, "+-")))
		} else {
			sb.WriteString(":s")
		}
	}
	return sb.String()
}

var c11Hung = map[string]bool{}   // argument classes that hung
var c11HungFn = map[string]int{}  // hangs per helper
const c11MaxHangsPerHelper = 3

// c11Skip: a call of this class (or of a helper that hung too often) is not evaluated any more
func c11Skip(in c11In) bool {
	return c11Hung[c11Class(in)] || c11HungFn[in.Fn] >= c11MaxHangsPerHelper
}

func c11Run(in c11In) (out c11Out) {
	tpl, groups := c11Template(in)
	var s string
	compiled := true
	outcome, pv := Guarded(c11CallLimit, func() {
		kb, _ := stdlib.NewStdKeyBuilder().Compile(tpl)
		if kb == nil {
			compiled = false
			return
		}
		s = kb.BuildKey(&c11Ctx{groups})
	})
	out.Template = tpl
	out.Outcome = outcome
	switch {
	case outcome == "hang":
		out.Hang = true
		out.Note = fmt.Sprintf("did not return within %v", c11CallLimit)
		c11Hung[c11Class(in)] = true
		c11HungFn[in.Fn]++
	case outcome == "panic":
		out.Panic = true
		out.Note = fmt.Sprint(pv)
	case !compiled:
		out.Outcome = "panic"
		out.Panic = true
		out.Note = "Compile returned nil"
	default:
		out.Out = hex.EncodeToString([]byte(s))
		out.Text = strconv.QuoteToASCII(s)
	}
	return
}

// ---- exact float values for the model ----
func fvalCoq(s string) string {
	f, err := strconv.ParseFloat(s, 64)
	if err != nil {
		return "fN"
	}
	return fvalOf(f)
}
func fvalOf(f float64) string {
	switch {
	case math.IsNaN(f):
		return "fNaN"
	case math.IsInf(f, 1):
		return "fPInf"
	case math.IsInf(f, -1):
		return "fMInf"
	}
	bits := math.Float64bits(f)
	neg := bits>>63 == 1
	exp := int64((bits >> 52) & 0x7ff)
	m := int64(bits & ((1 << 52) - 1))
	var e int64
	if exp == 0 {
		e = -1074
	} else {
		m |= 1 << 52
		e = exp - 1075
	}
	if m == 0 {
		e = 0
	}
	for m != 0 && m&1 == 0 {
		m >>= 1
		e++
	}
	if neg {
		m = -m
	}
	return fmt.Sprintf("(fF %s %s)", Z(m), Z(e))
}

// ---- function table ----
type fspec struct {
	name   string
	coq    string
	floats func(i, n int) bool                 // does argument i (of n) go through strconv.ParseFloat?
	oracle func(v []string) string             // direct Go computation for the forwarded part ("" when unused)
	gen    func(r *Rng) []c11Arg               // arguments (valid arity; arity faults are added by the caller)
	kf     func(v []string, cst []bool) string // known-finding domain of the input ("" = none)
}

func allFloat(i, n int) bool { return true }
func noFloat(i, n int) bool  { return false }
func firstFloat(i, n int) bool {
	return i == 0
}

func pf(s string) (float64, bool) {
	f, err := strconv.ParseFloat(s, 64)
	return f, err == nil
}

func ffoldOracle(op func(a, b float64) float64) func(v []string) string {
	return func(v []string) string {
		if len(v) < 2 {
			return ""
		}
		acc, ok := pf(v[0])
		if !ok {
			return ""
		}
		for _, s := range v[1:] {
			x, ok := pf(s)
			if !ok {
				return ""
			}
			acc = op(acc, x)
		}
		return strconv.FormatFloat(acc, 'f', -1, 64)
	}
}
func funOracle(op func(float64) float64) func(v []string) string {
	return func(v []string) string {
		if len(v) != 1 {
			return ""
		}
		x, ok := pf(v[0])
		if !ok {
			return ""
		}
		return strconv.FormatFloat(op(x), 'f', -1, 64)
	}
}
// precision arguments beyond this are rejected by the helpers (maxPrecision); the oracles never format them
const c11MaxPrecision = 1100

func roundOracle(v []string) string {
	if len(v) < 1 || len(v) > 2 {
		return ""
	}
	prec := 0
	if len(v) == 2 {
		p, err := strconv.Atoi(v[1])
		if err != nil {
			return ""
		}
		if p > c11MaxPrecision {
			return ""
		}
		prec = p
	}
	x, ok := pf(v[0])
	if !ok {
		return ""
	}
	return strconv.FormatFloat(x, 'f', prec, 64)
}
func unitOracle(unsigned bool, step float64, nunits int) func(v []string) string {
	return func(v []string) string {
		if len(v) < 1 || len(v) > 2 {
			return ""
		}
		prec := 0
		if len(v) == 2 {
			p, err := strconv.Atoi(v[1])
			if err != nil {
				return ""
			}
			if p > c11MaxPrecision {
			return ""
		}
		prec = p
		}
		var nf float64
		if unsigned {
			u, err := strconv.ParseUint(v[0], 10, 64)
			if err != nil {
				return ""
			}
			nf = float64(u)
		} else {
			i, err := strconv.ParseInt(v[0], 10, 64)
			if err != nil {
				return ""
			}
			nf = float64(i)
		}
		rank := 0
		for (nf <= -step || nf >= step) && rank < nunits-1 {
			nf /= step
			rank++
		}
		return strconv.FormatFloat(nf, 'f', prec, 64)
	}
}
func percentOracle(v []string) string {
	if len(v) < 1 || len(v) > 4 {
		return ""
	}
	dec := 1
	if len(v) >= 2 {
		d, err := strconv.Atoi(v[1])
		if err != nil {
			return ""
		}
		if d > c11MaxPrecision {
			return ""
		}
		dec = d
	}
	mn, mx := 0.0, 1.0
	ok1, ok2 := true, true
	switch len(v) {
	case 3:
		mx, ok2 = pf(v[2])
	case 4:
		mn, ok1 = pf(v[2])
		mx, ok2 = pf(v[3])
	}
	val, ok3 := pf(v[0])
	if !ok1 || !ok2 || !ok3 {
		return ""
	}
	return strconv.FormatFloat((val-mn)*100.0/(mx-mn), 'f', dec, 64) + "%"
}
func formatOracle(v []string) string {
	if len(v) < 1 {
		return ""
	}
	xs := make([]interface{}, len(v)-1)
	for i := range xs {
		xs[i] = v[i+1]
	}
	return fmt.Sprintf(v[0], xs...)
}
func str1Oracle(f func(string) string) func(v []string) string {
	return func(v []string) string {
		if len(v) != 1 {
			return ""
		}
		return f(v[0])
	}
}
func hfOracle(v []string) string {
	if len(v) != 1 {
		return ""
	}
	x, ok := pf(v[0])
	if !ok {
		return ""
	}
	return strconv.FormatFloat(x, 'f', 4, 64)
}

// ---- value pools ----
var intBoundaries []string
var junkInts = []string{"", " ", "abc", "1.0", "1e3", "0x10", "1_000", " 5", "5 ", "+", "-", "--1", "+-1", "1-", "\u096f", "\uff15",
	"9223372036854775808", "-9223372036854775809", "18446744073709551616", "99999999999999999999", "NaN", "Inf"}
var oddInts = []string{"+5", "-0", "+0", "007", "-007", "+9223372036854775807", "000000000000000000000001"}

func init() {
	add := func(v int64) { intBoundaries = append(intBoundaries, strconv.FormatInt(v, 10)) }
	for _, v := range []int64{0, 1, 2, 3, 5, 7, 9, 49, 50, 51, 70, 99, 100, 101, 149, 150, 151, 255, 256, 1023, 1024, 1025,
		math.MaxInt32, math.MaxInt32 + 1, 1 << 53, 1<<53 - 1, 1<<53 + 1, math.MaxInt64, math.MaxInt64 - 1} {
		add(v)
		add(-v)
	}
	add(math.MinInt64)
	add(math.MinInt64 + 1)
	p := int64(10)
	for k := 1; k <= 18; k++ {
		for _, d := range []int64{-1, 0, 1} {
			add(p + d)
			add(-(p + d))
		}
		if k < 18 {
			p *= 10
		}
	}
	for _, st := range []int64{1024, 1000} {
		q := st
		for k := 1; k <= 6; k++ {
			add(q)
			add(q - 1)
			add(-q)
			if k < 6 {
				q *= st
			}
		}
	}
}

func genInt(r *Rng) string {
	switch x := r.Intn(20); {
	case x < 9:
		return Pick(r, intBoundaries)
	case x < 13:
		return strconv.FormatInt(int64(r.Intn(2001))-1000, 10)
	case x < 15:
		return strconv.FormatInt(int64(r.U64()), 10)
	case x < 16:
		return strconv.FormatInt(int64(r.U64()>>uint(r.Intn(64))), 10)
	case x < 17:
		return Pick(r, oddInts)
	case x < 18:
		return strconv.FormatUint(r.U64(), 10)
	default:
		return Pick(r, junkInts)
	}
}
func genSmallInt(r *Rng) string {
	switch x := r.Intn(12); {
	case x < 8:
		return strconv.Itoa(r.Range(-6, 12))
	case x < 10:
		return genInt(r)
	default:
		return Pick(r, []string{"0", "-1", "1", "9223372036854775807", "-9223372036854775808", "9223372036854775806", "x", ""})
	}
}
func genSize(r *Rng) string {
	switch x := r.Intn(12); {
	case x < 8:
		return Pick(r, []string{"1", "2", "3", "5", "7", "10", "50", "100", "1000", "1024", "4096"})
	case x < 10:
		return Pick(r, []string{"2147483648", "4611686018427387904", "9223372036854775807", "9223372036854775806", "3037000500"})
	case x < 11:
		return Pick(r, []string{"0", "-1", "-50", "abc", "", "1.5", "9223372036854775808"})
	default:
		return genInt(r)
	}
}

var floatPool = []string{"0", "-0", "1", "-1", "0.5", "1.5", "-1.5", "2.5", "-2.5", "2.25", "1e3", "1e-7", "1e30", "-1e30", "1e300",
	"999.99999", "999.99994", "-999.99999", "999.9999", "1000", "-1000", "1000.5", "999", "1234.5678", "-1234567.891",
	"123456789012", "1e15", "1e21", "9007199254740993", "9223372036854775807", "9223372036854775808", "-9223372036854775808",
	"-9223372036854775809", "9.2233720368547748e18", "0.1", "0.30000000000000004", "3.999999999999999", "4.000000000000001",
	"NaN", "nan", "Inf", "-Inf", "+Inf", "infinity", "0x1p4", "0x1.8p1", "1_0", ".5", "5.", "+.5e1", "1e", "e1", "abc", "", " 1", "1 ", "1,5", "\uff11"}

func genFloat(r *Rng) string {
	switch x := r.Intn(10); {
	case x < 5:
		return Pick(r, floatPool)
	case x < 7:
		return genInt(r)
	case x < 9:
		return strconv.FormatFloat(float64(int64(r.U64()>>uint(r.Intn(64))))/float64(int64(1)<<uint(r.Intn(12))), 'f', -1, 64)
	default:
		return strconv.FormatFloat(math.Float64frombits(r.U64()), 'g', -1, 64)
	}
}

var strAlphabet = []string{"a", "b", "c", "A", "Z", "z", "0", "1", " ", " ", "\t", "\n", "\r", "\x00", "\"", ",", "\v", "\f", "\u00e9", "\u00df", "\u0130",
	"\u0085", "\u00a0", "\u1680", "\u2000", "\u200a", "\u200b", "\u2028", "\u2029", "\u202f", "\u205f", "\u3000", "\xff", "\xc2", "\xe2\x80", "%", "\\", "{", "}", "-", ".", "/"}

func genStr(r *Rng) string {
	n := 0
	switch x := r.Intn(10); {
	case x < 1:
		n = 0
	case x < 5:
		n = r.Range(1, 4)
	case x < 9:
		n = r.Range(3, 12)
	default:
		n = r.Range(10, 40)
	}
	var sb strings.Builder
	mode := r.Intn(4) // 0: anything, 1: letters and blanks, 2: whitespace only, 3: csv specials
	for i := 0; i < n; i++ {
		switch mode {
		case 0:
			sb.WriteString(Pick(r, strAlphabet))
		case 1:
			sb.WriteString(Pick(r, []string{"a", "b", "c", "d", "ab", " ", "  ", "\t", "\"", "x"}))
		case 2:
			sb.WriteString(Pick(r, []string{" ", "\t", "\n", "\r", "\v", "\f", "\u0085", "\u00a0", "\u1680", "\u3000", "\u2003", "\u2028", "\u202f", "\u205f"}))
			sb.WriteString(Pick(r, []string{"a", "b", ",", "\"", "\r", "\n", "\"\"", " ", ",,", "x"}))
		}
	}
	return sb.String()
}

func mkArg(r *Rng, v string, constPct int) c11Arg {
	c := constSafe(v) && r.Intn(100) < constPct
	return c11Arg{Const: c, Val: hex.EncodeToString([]byte(v)), Text: strconv.QuoteToASCII(v)}
}

func argsOf(r *Rng, constPct int, vals ...string) []c11Arg {
	out := make([]c11Arg, len(vals))
	for i, v := range vals {
		out[i] = mkArg(r, v, constPct)
	}
	return out
}
func nOf(r *Rng, lo, hi int, g func(*Rng) string) []c11Arg {
	n := r.Range(lo, hi)
	out := make([]c11Arg, n)
	for i := range out {
		out[i] = mkArg(r, g(r), 50)
	}
	return out
}

func atoi64(s string) (int64, bool) {
	v, err := strconv.ParseInt(s, 10, 64)
	return v, err == nil
}

// ---- domains of the (repaired) findings, decided from the input alone; kept so that the evidence
// shows these inputs are still generated ----
func kfBucket(v []string, cst []bool) string {
	if len(v) != 2 || !cst[1] {
		return ""
	}
	s, ok1 := atoi64(v[1])
	x, ok2 := atoi64(v[0])
	if ok1 && ok2 && s > 0 && x < 0 && x%s == 0 {
		return "C11-bucket-negative-multiple"
	}
	return ""
}
func kfDivZero(v []string, cst []bool) string {
	if len(v) < 2 {
		return ""
	}
	// operands are checked left to right: the domain is "a zero divisor is reached before any non-integer"
	for i := range v {
		x, ok := atoi64(v[i])
		if !ok {
			return ""
		}
		if i >= 1 && x == 0 {
			return "C11-divi-zero"
		}
	}
	return ""
}
func kfSubstr(v []string, cst []bool) string {
	if len(v) != 3 || v[0] == "" {
		return ""
	}
	l, ok1 := atoi64(v[1])
	n, ok2 := atoi64(v[2])
	if !ok1 || !ok2 {
		return ""
	}
	lenS := int64(len(v[0]))
	if n < 0 {
		n = 0
	}
	if l < 0 {
		l += lenS
		if l < 0 {
			l = 0
		}
	} else if l > lenS {
		l = lenS
	}
	if n > math.MaxInt64-l {
		return "C11-substr-overflow"
	}
	return ""
}
func kfHi(v []string, cst []bool) string {
	if len(v) == 1 {
		if x, ok := atoi64(v[0]); ok && x == math.MinInt64 {
			return "C11-hi-minint64"
		}
	}
	return ""
}
func kfExpBucket(v []string, cst []bool) string {
	if len(v) != 1 {
		return ""
	}
	x, ok := atoi64(v[0])
	if !ok || x < 1 {
		return ""
	}
	viaFloat := int64(math.Pow10(int(math.Log10(float64(x)))))
	exact := int64(1)
	for x/exact >= 10 {
		exact *= 10
	}
	if viaFloat != exact {
		return "C11-expbucket-float"
	}
	return ""
}
func kfAndOr(v []string, cst []bool) string {
	for _, s := range v {
		if s != "" && strings.TrimSpace(s) == "" {
			return "C11-andor-emptiness"
		}
	}
	return ""
}
func kfCeil(up bool) func(v []string, cst []bool) string {
	return func(v []string, cst []bool) string {
		if len(v) != 1 {
			return ""
		}
		f, ok := pf(v[0])
		if !ok {
			return ""
		}
		if up {
			f = math.Ceil(f)
		} else {
			f = math.Floor(f)
		}
		// float64(MinInt64) = -2^63 is in range; 2^63 is not
		if math.IsNaN(f) || f < -9223372036854775808.0 || f >= 9223372036854775808.0 {
			return "C11-ceil-overflow"
		}
		return ""
	}
}
func kfHf(v []string, cst []bool) string {
	if len(v) != 1 {
		return ""
	}
	f, ok := pf(v[0])
	if !ok || math.IsNaN(f) || math.IsInf(f, 0) {
		return ""
	}
	if f > -1000 && f < 1000 {
		s := strings.TrimPrefix(strconv.FormatFloat(f, 'f', 4, 64), "-")
		if strings.IndexByte(s, '.') >= 4 {
			return "C11-hf-rounding"
		}
	}
	return ""
}
func kfBytesize(v []string, cst []bool) string {
	if len(v) < 1 || len(v) > 2 {
		return ""
	}
	if len(v) == 2 {
		if _, ok := atoi64(v[1]); !ok || !cst[1] {
			return ""
		}
	}
	u, err := strconv.ParseUint(v[0], 10, 64)
	if err == nil && u >= 1<<63 {
		return "C11-bytesize-uint64-wrap"
	}
	return ""
}

// bytesize family: values whose unit rank is the same in float64 and in exact arithmetic
func genUnitVal(unsigned bool) func(r *Rng) string {
	return func(r *Rng) string {
		for {
			s := genInt(r)
			if unsigned && r.Chance(1, 12) {
				return strconv.FormatUint(1<<63+r.U64()>>1, 10)
			}
			if unsigned {
				u, err := strconv.ParseUint(s, 10, 64)
				if err != nil {
					return s
				}
				if u < 1<<53 || u >= 1<<63 {
					return s
				}
				continue
			}
			x, ok := atoi64(s)
			if !ok || (x > -(1<<53) && x < 1<<53) {
				return s
			}
		}
	}
}
func genUnitArgs(unsigned bool) func(r *Rng) []c11Arg {
	gv := genUnitVal(unsigned)
	return func(r *Rng) []c11Arg {
		if r.Chance(1, 2) {
			return argsOf(r, 50, gv(r))
		}
		a := argsOf(r, 50, gv(r))
		return append(a, mkArg(r, Pick(r, []string{"0", "1", "2", "3", "5", "-1", "x", "", "1100", "1101", "9223372036854775807"}), 92))
	}
}

var specs []fspec

func init() {
	ints2 := func(r *Rng) []c11Arg { return nOf(r, 2, 4, genSmallInt) }
	intsBig := func(r *Rng) []c11Arg { return nOf(r, 2, 3, genInt) }
	intFold := func(r *Rng) []c11Arg {
		if r.Chance(1, 2) {
			return ints2(r)
		}
		return intsBig(r)
	}
	strs := func(lo, hi int) func(r *Rng) []c11Arg {
		return func(r *Rng) []c11Arg { return nOf(r, lo, hi, genStr) }
	}
	truthArgs := func(lo, hi int) func(r *Rng) []c11Arg {
		return func(r *Rng) []c11Arg {
			return nOf(r, lo, hi, func(r *Rng) string {
				return Pick(r, []string{"", "", " ", "  ", "\t", "\n", "\u00a0", "\u3000", "  \t", "0", "1", "a", "false", " a ", "\xff", "\xc2", "\u200b", "x y", "\u2028\u0085", "\xe2\x80"})
			})
		}
	}
	pair := func(r *Rng) []c11Arg {
		a := genStr(r)
		var b string
		switch r.Intn(5) {
		case 0:
			b = genStr(r)
		case 1:
			if len(a) > 0 {
				b = a[:r.Intn(len(a)+1)]
			}
		case 2:
			if len(a) > 0 {
				b = a[r.Intn(len(a)+1):]
			}
		case 3:
			if len(a) > 0 {
				i := r.Intn(len(a) + 1)
				j := i + r.Intn(len(a)-i+1)
				b = a[i:j]
			}
		default:
			b = a + Pick(r, []string{"", "x", " "})
		}
		return argsOf(r, 50, a, b)
	}
	floats := func(lo, hi int) func(r *Rng) []c11Arg {
		return func(r *Rng) []c11Arg { return nOf(r, lo, hi, genFloat) }
	}
	fpair := func(r *Rng) []c11Arg {
		a := genFloat(r)
		b := genFloat(r)
		switch r.Intn(6) {
		case 0:
			b = a
		case 1:
			if f, ok := pf(a); ok && !math.IsNaN(f) && !math.IsInf(f, 0) {
				b = strconv.FormatFloat(f, 'e', -1, 64) // same value, other text
			}
		case 2:
			if f, ok := pf(a); ok {
				b = strconv.FormatFloat(math.Nextafter(f, math.Inf(1-2*r.Intn(2))), 'g', -1, 64)
			}
		case 3:
			a, b = strconv.Itoa(r.Range(-3, 3)), strconv.Itoa(r.Range(-3, 3))
		}
		return argsOf(r, 50, a, b)
	}
	specs = []fspec{
		{name: "coalesce", coq: "Coalesce", floats: noFloat, gen: truthArgs(1, 4)},
		{name: "bucket", coq: "Bucket", floats: noFloat, kf: kfBucket, gen: func(r *Rng) []c11Arg {
			return []c11Arg{mkArg(r, genInt(r), 50), mkArg(r, genSize(r), 92)}
		}},
		{name: "bucketrange", coq: "BucketRange", floats: noFloat, kf: kfBucket, gen: func(r *Rng) []c11Arg {
			return []c11Arg{mkArg(r, genInt(r), 50), mkArg(r, genSize(r), 92)}
		}},
		{name: "clamp", coq: "Clamp", floats: noFloat, gen: func(r *Rng) []c11Arg {
			lo, hi := genSmallInt(r), genSmallInt(r)
			v := genSmallInt(r)
			if r.Chance(1, 3) {
				v = Pick(r, []string{lo, hi, "+" + lo, "0" + hi})
			}
			return []c11Arg{mkArg(r, v, 50), mkArg(r, lo, 92), mkArg(r, hi, 92)}
		}},
		{name: "expbucket", coq: "ExpBucket", floats: noFloat, kf: kfExpBucket, gen: func(r *Rng) []c11Arg { return argsOf(r, 50, genInt(r)) }},
		{name: "isint", coq: "IsInt", floats: noFloat, gen: func(r *Rng) []c11Arg { return argsOf(r, 50, genFloat(r)) }},
		{name: "isnum", coq: "IsNum", floats: allFloat, gen: func(r *Rng) []c11Arg { return argsOf(r, 50, genFloat(r)) }},
		{name: "sumi", coq: "Sumi", floats: noFloat, gen: intFold},
		{name: "subi", coq: "Subi", floats: noFloat, gen: intFold},
		{name: "multi", coq: "Multi", floats: noFloat, gen: intFold},
		{name: "divi", coq: "Divi", floats: noFloat, gen: intFold, kf: kfDivZero},
		{name: "modi", coq: "Modi", floats: noFloat, gen: intFold, kf: kfDivZero},
		{name: "maxi", coq: "Maxi", floats: noFloat, gen: intFold},
		{name: "mini", coq: "Mini", floats: noFloat, gen: intFold},
		{name: "sumf", coq: "FFold", floats: allFloat, gen: floats(2, 4), oracle: ffoldOracle(func(a, b float64) float64 { return a + b })},
		{name: "subf", coq: "FFold", floats: allFloat, gen: floats(2, 3), oracle: ffoldOracle(func(a, b float64) float64 { return a - b })},
		{name: "multf", coq: "FFold", floats: allFloat, gen: floats(2, 3), oracle: ffoldOracle(func(a, b float64) float64 { return a * b })},
		{name: "divf", coq: "FFold", floats: allFloat, gen: floats(2, 3), oracle: ffoldOracle(func(a, b float64) float64 { return a / b })},
		{name: "pow", coq: "FFold", floats: allFloat, gen: floats(2, 2), oracle: ffoldOracle(math.Pow)},
		{name: "log10", coq: "FUn", floats: allFloat, gen: floats(1, 1), oracle: funOracle(math.Log10)},
		{name: "log2", coq: "FUn", floats: allFloat, gen: floats(1, 1), oracle: funOracle(math.Log2)},
		{name: "ln", coq: "FUn", floats: allFloat, gen: floats(1, 1), oracle: funOracle(math.Log)},
		{name: "sqrt", coq: "FUn", floats: allFloat, gen: floats(1, 1), oracle: funOracle(math.Sqrt)},
		{name: "ceil", coq: "Ceil", floats: allFloat, gen: floats(1, 1), kf: kfCeil(true)},
		{name: "floor", coq: "Floor", floats: allFloat, gen: floats(1, 1), kf: kfCeil(false)},
		{name: "round", coq: "Round", floats: firstFloat, oracle: roundOracle, gen: func(r *Rng) []c11Arg {
			if r.Chance(1, 2) {
				return argsOf(r, 50, genFloat(r))
			}
			return []c11Arg{mkArg(r, genFloat(r), 50), mkArg(r, Pick(r, []string{"0", "1", "2", "4", "10", "-1", "x", "", "1.5", "1100", "1101", "4611686018427387904"}), 92)}
		}},
		{name: "if", coq: "If", floats: noFloat, gen: truthArgs(2, 3)},
		{name: "switch", coq: "Switch", floats: noFloat, gen: truthArgs(2, 6)},
		{name: "unless", coq: "Unless", floats: noFloat, gen: truthArgs(2, 2)},
		{name: "eq", coq: "Eq", floats: noFloat, gen: func(r *Rng) []c11Arg {
			if r.Chance(1, 2) {
				return truthArgs(2, 4)(r)
			}
			return pair(r)
		}},
		{name: "neq", coq: "Neq", floats: noFloat, gen: func(r *Rng) []c11Arg {
			if r.Chance(1, 2) {
				return truthArgs(2, 4)(r)
			}
			return pair(r)
		}},
		{name: "not", coq: "Not", floats: noFloat, gen: truthArgs(1, 1)},
		{name: "lt", coq: "Lt", floats: allFloat, gen: fpair},
		{name: "gt", coq: "Gt", floats: allFloat, gen: fpair},
		{name: "lte", coq: "Lte", floats: allFloat, gen: fpair},
		{name: "gte", coq: "Gte", floats: allFloat, gen: fpair},
		{name: "and", coq: "And", floats: noFloat, gen: truthArgs(1, 4), kf: kfAndOr},
		{name: "or", coq: "Or", floats: noFloat, gen: truthArgs(1, 4), kf: kfAndOr},
		{name: "len", coq: "Len", floats: noFloat, gen: strs(1, 1)},
		{name: "like", coq: "Like", floats: noFloat, gen: pair},
		{name: "prefix", coq: "Prefix", floats: noFloat, gen: pair},
		{name: "suffix", coq: "Suffix", floats: noFloat, gen: pair},
		{name: "format", coq: "Format", floats: noFloat, oracle: formatOracle, gen: func(r *Rng) []c11Arg {
			f := Pick(r, []string{"%s", "%5s|", "%-5s|", "%s-%s", "%q", "%d", "%%", "%", "%s %s %s", "%v", "%[2]s%[1]s", "%x", "%10.3s|", "plain", ""})
			a := argsOf(r, 50, f)
			return append(a, nOf(r, 0, 3, genStr)...)
		}},
		{name: "substr", coq: "Substr", floats: noFloat, kf: kfSubstr, gen: func(r *Rng) []c11Arg {
			s := genStr(r)
			idx := func() string {
				switch x := r.Intn(10); {
				case x < 6:
					return strconv.Itoa(r.Range(-len(s)-3, len(s)+3))
				case x < 8:
					return Pick(r, []string{"9223372036854775807", "-9223372036854775808", "9223372036854775806", "-9223372036854775807", "4611686018427387904"})
				default:
					return genSmallInt(r)
				}
			}
			return argsOf(r, 50, s, idx(), idx())
		}},
		{name: "select", coq: "Select", floats: noFloat, gen: func(r *Rng) []c11Arg {
			var sb strings.Builder
			for i, n := 0, r.Intn(8); i < n; i++ {
				sb.WriteString(Pick(r, []string{"a", "bc", "d", "\u00e9", " ", "  ", "\t", "\t", "\n", "\n", "\x00", "\x00", "\r", "\v", "\u00a0", "\"", "\"x y\"", "\"x\ty\"", "\"\"", "q\"r", ",", "\xff"}))
			}
			s := sb.String()
			if r.Chance(1, 4) {
				s = genStr(r)
			}
			idx := genSmallInt(r)
			if r.Chance(3, 4) {
				idx = strconv.Itoa(r.Intn(5))
			}
			return argsOf(r, 50, s, idx)
		}},
		{name: "upper", coq: "Upper", floats: noFloat, gen: strs(1, 1), oracle: str1Oracle(strings.ToUpper)},
		{name: "lower", coq: "Lower", floats: noFloat, gen: strs(1, 1), oracle: str1Oracle(strings.ToLower)},
		{name: "tab", coq: "Tab", floats: noFloat, gen: strs(1, 4)},
		{name: "$", coq: "Dollar", floats: noFloat, gen: strs(1, 4)},
		{name: "basename", coq: "PathFn", floats: noFloat, gen: pathArg, oracle: str1Oracle(filepath.Base)},
		{name: "dirname", coq: "PathFn", floats: noFloat, gen: pathArg, oracle: str1Oracle(filepath.Dir)},
		{name: "extname", coq: "PathFn", floats: noFloat, gen: pathArg, oracle: str1Oracle(filepath.Ext)},
		{name: "lookup", coq: "Lookup", floats: noFloat, gen: tableArgs},
		{name: "haskey", coq: "HasKey", floats: noFloat, gen: tableArgs},
		{name: "hi", coq: "Hi", floats: noFloat, kf: kfHi, gen: func(r *Rng) []c11Arg { return argsOf(r, 50, genInt(r)) }},
		{name: "hf", coq: "Hf", floats: allFloat, kf: kfHf, oracle: hfOracle, gen: func(r *Rng) []c11Arg {
			if r.Chance(1, 2) {
				return argsOf(r, 50, Pick(r, []string{"999.99995", "999.99994", "999.99996", "-999.99996", "-999.99999", "999.9999", "1000", "-1000",
					"999", "1e6", "1234567.891", "-1e9", "99999.99999", "999999.99999", "0.00004", "0.00005", "123456789012345680000", "1e21",
					"12345.6789", "100000", "-100000.5", "9999999", "10000000", "1e15", "-1e300", "1000.00001", "-0.0", "5e-324"}))
			}
			return argsOf(r, 50, genFloat(r))
		}},
		{name: "bytesize", coq: "Bytesize", floats: noFloat, kf: kfBytesize, oracle: unitOracle(true, 1024, 8), gen: genUnitArgs(true)},
		{name: "bytesizesi", coq: "BytesizeSi", floats: noFloat, kf: kfBytesize, oracle: unitOracle(true, 1000, 8), gen: genUnitArgs(true)},
		{name: "downscale", coq: "Downscale", floats: noFloat, oracle: unitOracle(false, 1000, 5), gen: genUnitArgs(false)},
		{name: "percent", coq: "Percent", floats: func(i, n int) bool { return i != 1 }, oracle: percentOracle, gen: func(r *Rng) []c11Arg {
			n := r.Range(1, 4)
			a := []c11Arg{mkArg(r, genFloat(r), 50)}
			if n >= 2 {
				a = append(a, mkArg(r, Pick(r, []string{"0", "1", "2", "3", "x", "", "1100", "1101", "100000000000"}), 92))
			}
			for i := 2; i < n; i++ {
				a = append(a, mkArg(r, Pick(r, []string{"0", "1", "10", "100", "-5", "2.5", "1e3", "abc", "0"}), 50))
			}
			return a
		}},
		{name: "csv", coq: "Csv", floats: noFloat, gen: strs(1, 5)},
	}
}

func pathArg(r *Rng) []c11Arg {
	var sb strings.Builder
	for i, n := 0, r.Intn(7); i < n; i++ {
		sb.WriteString(Pick(r, []string{"/", "//", "a", "b.txt", ".", "..", ".hidden", "x.tar.gz", " ", "\u00e9", "\xff", "c."}))
	}
	return argsOf(r, 50, sb.String())
}

func tableArgs(r *Rng) []c11Arg {
	keys := []string{"a", "b", "key", "k2", "#x", "//c", "A"}
	var sb strings.Builder
	for i, n := 0, r.Intn(8); i < n; i++ {
		switch r.Intn(9) {
		case 0:
			sb.WriteString("")
		case 1:
			sb.WriteString(Pick(r, []string{"#", "//", "# ", ";"}) + Pick(r, keys) + " v")
		case 2:
			sb.WriteString(Pick(r, keys))
		case 3:
			sb.WriteString(Pick(r, keys) + " x y")
		case 4:
			sb.WriteString("  " + Pick(r, keys) + "\t\tval" + strconv.Itoa(i) + "  ")
		default:
			sb.WriteString(Pick(r, keys) + Pick(r, []string{" ", "\t", "  ", " \v"}) + "v" + strconv.Itoa(i))
		}
		sb.WriteString(Pick(r, []string{"\n", "\n", "\r\n", "\n\n", "\r\r\n"}))
	}
	if r.Chance(1, 3) {
		sb.WriteString(Pick(r, keys) + " last")
	}
	key := Pick(r, keys)
	if r.Chance(1, 6) {
		key = genStr(r)
	}
	a := []c11Arg{mkArg(r, key, 50), mkArg(r, sb.String(), 95)}
	if r.Chance(1, 2) {
		a = append(a, mkArg(r, Pick(r, []string{"#", "//", "", ";", "a"}), 90))
	}
	return a
}

var specByName = map[string]*fspec{}

func init() {
	for i := range specs {
		specByName[specs[i].name] = &specs[i]
	}
}

func c11Case(in c11In) Case { return c11CaseObs(in, c11Run(in), nil, nil) }

// c11CaseObs builds the case for one call given the observed outcome; extra (sequence / concurrent
// provenance, needed to replay) is merged into the description and the distinctness key
func c11CaseObs(in c11In, out c11Out, extra map[string]any, moreTags []string) Case {
	sp := specByName[in.Fn]
	vals := make([]string, len(in.Args))
	cst := make([]bool, len(in.Args))
	parts := make([]string, len(in.Args))
	anyGroup, anyConst := false, false
	for i, a := range in.Args {
		vals[i] = unhex(a.Val)
		cst[i] = a.Const
		ctor := "g"
		if a.Const {
			ctor = "k"
			anyConst = true
		} else {
			anyGroup = true
		}
		if sp.floats(i, len(in.Args)) {
			parts[i] = fmt.Sprintf("%sf %s %s", ctor, HS(vals[i]), fvalCoq(vals[i]))
		} else {
			parts[i] = fmt.Sprintf("%s %s", ctor, HS(vals[i]))
		}
	}
	orc := ""
	if sp.oracle != nil {
		func() {
			defer func() { recover() }()
			orc = sp.oracle(vals)
		}()
	}
	obs := "(oO \"" + out.Out + "\")"
	if out.Hang {
		obs = "oH"
	} else if out.Panic {
		obs = "oP"
	}
	coq := fmt.Sprintf("c %s %s %s %s", sp.coq, CoqList(parts), HS(orc), obs)
	tags := []string{"fn=" + in.Fn, fmt.Sprintf("arity=%d", len(in.Args))}
	if anyGroup {
		tags = append(tags, "args-from-groups")
	}
	if anyConst {
		tags = append(tags, "args-constant")
	}
	if out.Panic {
		tags = append(tags, "impl-panic")
	}
	if out.Hang {
		tags = append(tags, "impl-hang")
	}
	o := unhex(out.Out)
	marker := strings.HasPrefix(o, "<") && strings.HasSuffix(o, ">")
	if marker {
		tags = append(tags, "marker:"+o)
	}
	if sp.kf != nil {
		if id := sp.kf(vals, cst); id != "" {
			// all nine C11 findings are repaired: the domain is only counted (distribution), the
			// case is checked at full strength
			tags = append(tags, "domain-of-fixed:"+id)
		}
	}
	tags = append(tags, moreTags...)
	desc := map[string]any{"input": in, "impl": out}
	for k, v := range extra {
		desc[k] = v
	}
	kb, _ := json.Marshal(in)
	key := string(kb)
	if extra != nil {
		eb, _ := json.Marshal(extra)
		key += string(eb)
	}
	return Case{Coq: coq, Desc: desc, Key: key, Nontrivial: !marker || anyGroup, Tags: tags}
}

// ---------------------------------------------------------------------------------------------
// One compiled expression, many evaluations.  rare compiles a key builder once and shares it between
// all worker goroutines, so the value of a compiled call on a context must not depend on earlier
// evaluations (a memo, a scratch buffer captured by the stage) nor on evaluations running at the same
// time.  SEQUENCE cases evaluate one compiled call over a sequence of contexts, CONCURRENT cases from
// several goroutines at once; every single result is a case of its own, compared with the model value
// for that context alone.

type c11Multi struct {
	Mode     string     `json:"mode"` // sequence | concurrent
	Optimize bool       `json:"optimize"`
	Shape    c11In      `json:"shape"`    // the call as compiled: constants, and which arguments are groups
	Steps    [][]string `json:"steps"`    // per context: hex values of the group arguments, in order
	Index    int        `json:"index"`    // which step / context this case reports
	Workers  int        `json:"workers,omitempty"`
	Iters    int        `json:"iters,omitempty"`
}

func c11GroupPositions(shape c11In) []int {
	var pos []int
	for i, a := range shape.Args {
		if !a.Const {
			pos = append(pos, i)
		}
	}
	return pos
}

// the call a context amounts to: the shape with the group arguments replaced by the context's values
func c11Instantiate(shape c11In, step []string) c11In {
	in := c11In{Fn: shape.Fn, Args: append([]c11Arg(nil), shape.Args...)}
	for j, i := range c11GroupPositions(shape) {
		v := ""
		if j < len(step) {
			v = step[j]
		}
		in.Args[i] = c11Arg{Const: false, Val: v, Text: strconv.QuoteToASCII(unhex(v))}
	}
	return in
}

func c11StepGroups(step []string) []string {
	g := make([]string, len(step))
	for i, h := range step {
		g[i] = unhex(h)
	}
	return g
}

// runs the sequence on ONE compiled builder; returns the outcome of every step (stops after a panic at
// compile time or a hang)
func c11RunSequence(m c11Multi) []c11Out {
	tpl, _ := c11Template(m.Shape)
	outs := make([]c11Out, 0, len(m.Steps))
	var eval func(groups []string) string
	outcome, pv := Guarded(c11CallLimit, func() {
		kb, _ := stdlib.NewStdKeyBuilderEx(m.Optimize).Compile(tpl)
		eval = func(groups []string) string { return kb.BuildKey(&c11Ctx{groups}) }
	})
	if outcome != "ok" {
		o := c11Out{Template: tpl, Outcome: outcome, Panic: outcome == "panic", Hang: outcome == "hang", Note: fmt.Sprint("at compile time: ", pv)}
		if o.Hang {
			c11HungFn[m.Shape.Fn]++
		}
		return append(outs, o)
	}
	for _, st := range m.Steps {
		var s string
		groups := c11StepGroups(st)
		outcome, pv := Guarded(c11CallLimit, func() { s = eval(groups) })
		o := c11Out{Template: tpl, Outcome: outcome}
		switch outcome {
		case "hang":
			o.Hang = true
			o.Note = fmt.Sprintf("did not return within %v", c11CallLimit)
			c11Hung[c11Class(c11Instantiate(m.Shape, st))] = true
			c11HungFn[m.Shape.Fn]++
		case "panic":
			o.Panic = true
			o.Note = fmt.Sprint(pv)
		default:
			o.Out = hex.EncodeToString([]byte(s))
			o.Text = strconv.QuoteToASCII(s)
		}
		outs = append(outs, o)
		if o.Hang {
			break
		}
	}
	return outs
}

// runs the contexts concurrently on ONE compiled builder: worker w evaluates context w mod len(Steps)
// Iters times after a common start barrier.  Per context the reported outcome is the first result that
// differs from the value a fresh builder gives for that context alone (or a panic), else that value.
func c11RunConcurrent(m c11Multi) []c11Out {
	tpl, _ := c11Template(m.Shape)
	n := len(m.Steps)
	outs := make([]c11Out, n)
	type dev struct {
		panicked bool
		note     string
		val      string
		seen     bool
	}
	devs := make([]dev, m.Workers)
	ref := make([]string, n)
	outcome, pv := Guarded(20*time.Second, func() {
		for j, st := range m.Steps {
			kb, _ := stdlib.NewStdKeyBuilderEx(m.Optimize).Compile(tpl)
			ref[j] = kb.BuildKey(&c11Ctx{c11StepGroups(st)})
		}
		kb, _ := stdlib.NewStdKeyBuilderEx(m.Optimize).Compile(tpl)
		start := make(chan struct{})
		done := make(chan int, m.Workers)
		for w := 0; w < m.Workers; w++ {
			go func(w int) {
				defer func() {
					if e := recover(); e != nil {
						devs[w] = dev{panicked: true, note: fmt.Sprint(e), seen: true}
					}
					done <- w
				}()
				j := w % n
				ctx := &c11Ctx{c11StepGroups(m.Steps[j])}
				<-start
				for it := 0; it < m.Iters; it++ {
					if v := kb.BuildKey(ctx); v != ref[j] && !devs[w].seen {
						devs[w] = dev{val: v, seen: true, note: fmt.Sprintf("evaluation %d of worker %d", it, w)}
					}
				}
			}(w)
		}
		close(start)
		for w := 0; w < m.Workers; w++ {
			<-done
		}
	})
	for j := range outs {
		outs[j] = c11Out{Template: tpl, Outcome: "ok", Out: hex.EncodeToString([]byte(ref[j])), Text: strconv.QuoteToASCII(ref[j])}
	}
	if outcome != "ok" {
		c11HungFn[m.Shape.Fn] += c11MaxHangsPerHelper
		outs[0] = c11Out{Template: tpl, Outcome: outcome, Panic: outcome == "panic", Hang: outcome == "hang", Note: fmt.Sprint("concurrent batch: ", pv)}
		return outs
	}
	for w, d := range devs {
		if !d.seen {
			continue
		}
		j := w % n
		if d.panicked {
			outs[j] = c11Out{Template: tpl, Outcome: "panic", Panic: true, Note: d.note}
		} else if outs[j].Outcome == "ok" && outs[j].Note == "" {
			outs[j] = c11Out{Template: tpl, Outcome: "ok", Out: hex.EncodeToString([]byte(d.val)), Text: strconv.QuoteToASCII(d.val),
				Note: "differs from the value of this context alone (" + strconv.QuoteToASCII(ref[j]) + "): " + d.note}
		}
	}
	return outs
}

func c11MultiCases(m c11Multi) []Case {
	var outs []c11Out
	if m.Mode == "concurrent" {
		outs = c11RunConcurrent(m)
	} else {
		outs = c11RunSequence(m)
	}
	opt := "unoptimised"
	if m.Optimize {
		opt = "optimised"
	}
	var cs []Case
	for k, o := range outs {
		mk := m
		mk.Index = k
		if m.Mode == "sequence" {
			mk.Steps = m.Steps[:k+1] // the history a replay needs
		}
		tags := []string{"mode=" + m.Mode, m.Mode + "-" + opt}
		if m.Mode == "sequence" {
			if k > 0 && strings.Join(m.Steps[k], ",") == strings.Join(m.Steps[k-1], ",") {
				tags = append(tags, "sequence-same-context-again")
			}
			if k == 0 {
				tags = append(tags, "sequence-first")
			}
		}
		cs = append(cs, c11CaseObs(c11Instantiate(m.Shape, m.Steps[k]), o, map[string]any{"multi": mk}, tags))
	}
	return cs
}

var c11JunkValues = []string{"", " ", "abc", "<BAD-TYPE>", "NaN", "1e400", "-", "\"", ",", "\x00", "9223372036854775808", "\u00a0"}

// a compiled shape for helper sp (most arguments as groups) and a list of contexts drawn from the
// helper's own generator: all-empty probe-like context first, a context twice in a row, non-numbers /
// markers between proper values, earlier contexts again in another order
func c11MultiShape(r *Rng, sp *fspec) (c11In, [][]string, bool) {
	var base []c11Arg
	for try := 0; try < 20; try++ {
		base = sp.gen(r)
		if len(base) > 0 {
			break
		}
	}
	if len(base) == 0 {
		return c11In{}, nil, false
	}
	shape := c11In{Fn: sp.name, Args: base}
	pos := c11GroupPositions(shape)
	if len(pos) == 0 { // make the principal argument a group
		shape.Args[0].Const = false
		pos = []int{0}
	}
	draw := func() []string {
		for try := 0; try < 30; try++ {
			a := sp.gen(r)
			if len(a) != len(base) {
				continue
			}
			st := make([]string, len(pos))
			for j, i := range pos {
				st[j] = a[i].Val
			}
			return st
		}
		st := make([]string, len(pos))
		for j, i := range pos {
			st[j] = base[i].Val
		}
		return st
	}
	junk := func() []string {
		st := make([]string, len(pos))
		for j := range st {
			st[j] = hex.EncodeToString([]byte(Pick(r, c11JunkValues)))
		}
		return st
	}
	empty := make([]string, len(pos))
	d1, d2, d3 := draw(), draw(), draw()
	jk := junk()
	steps := [][]string{empty, empty, d1, d1, d2, jk, jk, d2, d3, junk(), d1, empty, d3, d2}
	return shape, steps, true
}

// ---- sequences with constant positional parameters ----
// A compiled call whose parameters (substr pos/length, select index, bucket size, clamp bounds,
// precisions, lookup table, pattern of prefix/like ...) are CONSTANTS may parse or normalise them once;
// nothing a row does to them may leak into later rows.  These groups keep the parameters constant,
// choose them at the boundaries of the step values (negative, zero, equal to / one past / far past the
// length of some step values but not of others) and vary the dynamic argument strongly between steps
// (empty first; shorter than, equal to, longer than the constant window; back and forth).

// nil = the dynamic argument (a match group), string = constant
func c11Param(fn string, args []any, steps ...[]string) c11Multi {
	shape := c11In{Fn: fn}
	for _, a := range args {
		if a == nil {
			shape.Args = append(shape.Args, c11Arg{Const: false})
		} else {
			v := a.(string)
			shape.Args = append(shape.Args, c11Arg{Const: true, Val: hex.EncodeToString([]byte(v)), Text: strconv.QuoteToASCII(v)})
		}
	}
	m := c11Multi{Mode: "sequence", Shape: shape}
	for _, st := range steps {
		h := make([]string, len(st))
		for i, v := range st {
			h[i] = hex.EncodeToString([]byte(v))
		}
		m.Steps = append(m.Steps, h)
	}
	return m
}

func c11One(vals ...string) [][]string {
	out := make([][]string, len(vals))
	for i, v := range vals {
		out[i] = []string{v}
	}
	return out
}

func c11ParamGroups(r *Rng) []c11Multi {
	var ms []c11Multi
	// strings of strongly varying length, a clamping row before a row of another length, both ways
	strs := c11One("", "abcdef", "0123456789", "xy", "abcdefgh", "z", "0123456789", "abc", "abcdef", "xy", "abcdefghijklmnopqrstuvwxyz", "abcd")
	for _, pl := range [][2]string{{"-3", "3"}, {"4", "2"}, {"0", "3"}, {"-1", "1"}, {"6", "1"}, {"7", "5"}, {"2", "100"}, {"-100", "2"},
		{"3", "0"}, {"10", "1"}, {"-6", "6"}, {"5", "-1"}, {"1", "9223372036854775807"}, {"-9223372036854775808", "4"}, {"2", "2"}, {"-2", "5"}} {
		ms = append(ms, c11Param("substr", []any{nil, pl[0], pl[1]}, strs...))
	}
	// one parameter constant, the other a group holding the same value on every row
	for _, pl := range [][2]string{{"-3", "3"}, {"4", "2"}, {"7", "5"}} {
		var a, b [][]string
		for _, st := range strs {
			a = append(a, []string{st[0], pl[1]})
			b = append(b, []string{st[0], pl[0]})
		}
		ms = append(ms, c11Param("substr", []any{nil, pl[0], nil}, a...))
		ms = append(ms, c11Param("substr", []any{nil, nil, pl[1]}, b...))
	}
	fields := c11One("", "a", "a b c", "a  b\tc d e", " lead x", "one", "a b c d e f", "\"q r\" s t", "x y", "a b c")
	for _, idx := range []string{"0", "1", "2", "4", "5", "-1", "9223372036854775807"} {
		ms = append(ms, c11Param("select", []any{nil, idx}, fields...))
	}
	nums := c11One("", "0", "49", "50", "51", "-1", "-50", "-51", "abc", "999", "1000", "-1000", "9223372036854775807", "-9223372036854775808", "7", "+7", "007", "50")
	for _, size := range []string{"1", "7", "50", "1000", "9223372036854775807"} {
		ms = append(ms, c11Param("bucket", []any{nil, size}, nums...))
		ms = append(ms, c11Param("bucketrange", []any{nil, size}, nums...))
	}
	for _, b := range [][2]string{{"0", "10"}, {"-50", "50"}, {"10", "0"}, {"7", "7"}, {"-9223372036854775808", "9223372036854775807"}, {"50", "999"}} {
		ms = append(ms, c11Param("clamp", []any{nil, b[0], b[1]}, nums...))
	}
	floats := c11One("", "0", "0.5", "1.5", "2.5", "-1.5", "abc", "999.99999", "1234.5678", "1e21", "0.000049", "NaN", "123456789.125", "0.05", "1.5")
	for _, pr := range []string{"0", "1", "3", "10", "-1", "1100"} {
		ms = append(ms, c11Param("round", []any{nil, pr}, floats...))
		ms = append(ms, c11Param("percent", []any{nil, pr}, floats...))
	}
	ms = append(ms, c11Param("percent", []any{nil, "1", "200"}, floats...))
	ms = append(ms, c11Param("percent", []any{nil, "2", "-100", "100"}, floats...))
	sizes := c11One("", "0", "999", "1000", "1023", "1024", "1025", "abc", "1048576", "999999", "1000000", "123456789012", "5", "-5", "9007199254740991", "1024")
	for _, pr := range []string{"0", "1", "3"} {
		for _, fn := range []string{"bytesize", "bytesizesi", "downscale"} {
			ms = append(ms, c11Param(fn, []any{nil, pr}, sizes...))
		}
	}
	keys := c11One("", "a", "b", "zz", "key", "a", "#x", "b ", "k2", "a")
	for _, fn := range []string{"lookup", "haskey"} {
		ms = append(ms, c11Param(fn, []any{nil, "a 1\nb two\n#x c\nkey\nb 3\nk2 v w\n"}, keys...))
		ms = append(ms, c11Param(fn, []any{nil, "a 1\nb two\n#x c\nkey\nb 3\n", "#"}, keys...))
	}
	// a constant pattern / operand against dynamic values of varying length
	words := c11One("", "ab", "abc", "a", "xxabcxx", "abcabc", "b", "ABC", "abc", " abc ", "ab", "abcd")
	for _, fn := range []string{"prefix", "suffix", "like", "eq", "neq"} {
		for _, pat := range []string{"abc", "", "a", "abcabc"} {
			ms = append(ms, c11Param(fn, []any{nil, pat}, words...))
			ms = append(ms, c11Param(fn, []any{pat, nil}, words...))
		}
	}
	for _, fn := range []string{"sumi", "subi", "multi", "divi", "modi", "maxi", "mini"} {
		ms = append(ms, c11Param(fn, []any{nil, "7"}, nums...))
		ms = append(ms, c11Param(fn, []any{"100", nil}, nums...))
		ms = append(ms, c11Param(fn, []any{nil, "0"}, nums...))
	}
	for _, fn := range []string{"lt", "gt", "lte", "gte"} {
		ms = append(ms, c11Param(fn, []any{nil, "1.5"}, floats...))
		ms = append(ms, c11Param(fn, []any{"1.5", nil}, floats...))
	}
	truths := c11One("", "1", " ", "a", "", "\t", "0", "x y", "\u00a0", "b")
	ms = append(ms, c11Param("if", []any{nil, "yes", "no"}, truths...))
	ms = append(ms, c11Param("unless", []any{nil, "v"}, truths...))
	ms = append(ms, c11Param("switch", []any{nil, "A", "", "B", "dflt"}, truths...))
	ms = append(ms, c11Param("coalesce", []any{nil, "fallback"}, truths...))
	ms = append(ms, c11Param("and", []any{nil, "1"}, truths...))
	ms = append(ms, c11Param("or", []any{nil, ""}, truths...))
	ms = append(ms, c11Param("format", []any{"%5s|%-3s|", nil, "k"}, words...))
	ms = append(ms, c11Param("csv", []any{"k", nil, ""}, c11One("", "a", "a,b", "q\"r", "line\nbreak", "plain", "a,b", "")...))
	ms = append(ms, c11Param("tab", []any{"k", nil, "z"}, words...))

	// and for every helper: only ONE argument dynamic, all the others constants taken from one draw of
	// the helper's generator, the dynamic one re-drawn at every step
	for i := range specs {
		sp := &specs[i]
		var base []c11Arg
		for try := 0; try < 30; try++ {
			base = sp.gen(r)
			ok := len(base) >= 2
			for _, a := range base {
				if !constSafe(unhex(a.Val)) {
					ok = false
				}
			}
			if ok {
				break
			}
			base = nil
		}
		if base == nil {
			continue
		}
		dyn := 0
		if r.Chance(1, 3) {
			dyn = r.Intn(len(base))
		}
		args := make([]any, len(base))
		for j, a := range base {
			if j != dyn {
				args[j] = unhex(a.Val)
			}
		}
		steps := [][]string{{""}}
		for k := 0; k < 9; k++ {
			for try := 0; try < 30; try++ {
				a := sp.gen(r)
				if len(a) == len(base) {
					steps = append(steps, []string{unhex(a[dyn].Val)})
					break
				}
			}
			if k == 3 || k == 6 {
				steps = append(steps, steps[len(steps)-1], []string{Pick(r, c11JunkValues)})
			}
		}
		steps = append(steps, steps[1])
		ms = append(ms, c11Param(sp.name, args, steps...))
	}
	return ms
}

func c11MultiGen(r *Rng, tier string) []Case {
	var cs []Case
	rounds := 1
	if tier == "thorough" {
		rounds = 6
	}
	for round := 0; round < rounds; round++ {
		for gi, m := range c11ParamGroups(r) {
			if c11HungFn[m.Shape.Fn] >= c11MaxHangsPerHelper {
				continue
			}
			skip := false
			for _, st := range m.Steps {
				if c11Skip(c11Instantiate(m.Shape, st)) {
					skip = true
				}
			}
			if skip {
				continue
			}
			// the index/window families run optimised and unoptimised, the others alternate
			both := round == 0 && (m.Shape.Fn == "substr" || m.Shape.Fn == "select" || m.Shape.Fn == "bucket" || m.Shape.Fn == "clamp")
			for _, opt := range []bool{true, false} {
				if !both && (gi+round)%2 == 0 == opt {
					continue
				}
				mo := m
				mo.Optimize = opt
				cases := c11MultiCases(mo)
				for k := range cases {
					cases[k].Tags = append(cases[k].Tags, "sequence-constant-parameters")
				}
				cs = append(cs, cases...)
			}
		}
		for i := range specs {
			sp := &specs[i]
			if c11HungFn[sp.name] >= c11MaxHangsPerHelper {
				continue
			}
			shape, steps, ok := c11MultiShape(r, sp)
			if !ok {
				continue
			}
			skip := false
			for _, st := range steps {
				if c11Skip(c11Instantiate(shape, st)) {
					skip = true
				}
			}
			if skip {
				continue
			}
			for _, opt := range []bool{true, false} {
				cs = append(cs, c11MultiCases(c11Multi{Mode: "sequence", Optimize: opt, Shape: shape, Steps: steps})...)
			}
			if c11HungFn[sp.name] > 0 {
				continue
			}
			// concurrent: distinct contexts, one per worker
			workers := r.Range(4, 8)
			var ctxs [][]string
			seen := map[string]bool{}
			for _, st := range steps {
				k := strings.Join(st, ",")
				if !seen[k] && len(ctxs) < workers {
					seen[k] = true
					ctxs = append(ctxs, st)
				}
			}
			// 60000 evaluations per worker: a torn two-field memo shows up in about 4 of 5 such batches
			// (2500 evaluations: 1 of 12), and the whole helper table still takes about a second
			for _, opt := range []bool{true, false} {
				cs = append(cs, c11MultiCases(c11Multi{Mode: "concurrent", Optimize: opt, Shape: shape, Steps: ctxs,
					Workers: workers, Iters: 60000})...)
			}
		}
	}
	return cs
}


// arity faults: drop or add arguments
func arityFault(r *Rng, a []c11Arg) []c11Arg {
	switch r.Intn(3) {
	case 0:
		if len(a) > 1 {
			return a[:len(a)-1]
		}
		return append(a, mkArg(r, "1", 50))
	case 1:
		return append(a, mkArg(r, genSmallInt(r), 50))
	default:
		return append(append(a, mkArg(r, "2", 50)), mkArg(r, "x", 50), mkArg(r, "3", 50))
	}
}

// a deterministic sweep over the boundary set for the helpers whose law is arithmetic
func c11Sweep(r *Rng) []Case {
	var cs []Case
	ka := func(v string, c bool) c11Arg {
		return c11Arg{Const: c && constSafe(v), Val: hex.EncodeToString([]byte(v)), Text: strconv.QuoteToASCII(v)}
	}
	// a call is evaluated unless its argument class already hung (see c11Skip)
	add := func(in c11In) {
		if !c11Skip(in) {
			cs = append(cs, c11Case(in))
		}
	}
	// boundary values by increasing magnitude: the int64 extremes come last, so that a helper that
	// hangs on them does not hide wrong values on the 19-digit inputs just below
	sorted := append([]string(nil), intBoundaries...)
	mag := func(s string) float64 { f, _ := strconv.ParseFloat(s, 64); return math.Abs(f) }
	sort.SliceStable(sorted, func(a, b int) bool {
		if mag(sorted[a]) != mag(sorted[b]) {
			return mag(sorted[a]) < mag(sorted[b])
		}
		return len(sorted[a]) < len(sorted[b]) || (len(sorted[a]) == len(sorted[b]) && sorted[a] < sorted[b])
	})
	i := 0
	for _, v := range sorted {
		i++
		byGroup := i%2 == 0
		add(c11In{"hi", []c11Arg{ka(v, !byGroup)}})
		add(c11In{"expbucket", []c11Arg{ka(v, byGroup)}})
		for _, s := range []string{"1", "3", "50", "1000", "9223372036854775807"} {
			if (i+len(s))%3 == 0 {
				add(c11In{"bucket", []c11Arg{ka(v, byGroup), ka(s, true)}})
			}
			if (i+len(s))%7 == 0 {
				add(c11In{"bucketrange", []c11Arg{ka(v, !byGroup), ka(s, true)}})
			}
		}
	}
	for j, v := range sorted {
		x, _ := atoi64(v)
		if x <= -(1<<53) || x >= 1<<53 {
			continue
		}
		prec := []string{"0", "1", "2", "3"}[j%4]
		ds := []c11Arg{ka(v, j%2 == 0)}
		if j%3 != 0 {
			ds = append(ds, ka(prec, true))
		}
		add(c11In{"downscale", ds})
		if x >= 0 {
			add(c11In{[]string{"bytesize", "bytesizesi"}[j%2], ds})
		}
	}
	// integer folds: the first failing operand decides (left to right, constants and groups alike):
	// a zero divisor before / after a non-integer, constants only and mixed with groups
	for _, fn := range []string{"divi", "modi", "sumi", "subi", "multi", "maxi", "mini"} {
		for _, ops := range [][]string{
			{"1023", "0", "9", "2", "x", "3"}, {"1023", "x", "0", "3"}, {"1023", "0", "x"}, {"1023", "x", "0"},
			{"x", "0"}, {"0", "x"}, {"5", "0"}, {"5", "2", "0", "x"}, {"5", "2", "x", "0"}, {"5", "", "0"}, {"5", "0", ""},
			{"8", "2", "2", "0", "1.5"}, {"8", "2", "1.5", "0"}} {
			for mode := 0; mode < 4; mode++ { // all constants; all groups; non-integers constant; zeros constant
				args := make([]c11Arg, len(ops))
				for k, v := range ops {
					_, isInt := atoi64(v)
					c := mode == 0 || (mode == 2 && !isInt) || (mode == 3 && v == "0")
					args[k] = ka(v, c)
				}
				add(c11In{fn, args})
			}
		}
	}
	// precision bound of round / bytesize / bytesizesi / downscale / percent, both sides
	for _, pr := range []string{"1099", "1100", "1101", "1102", "2000", "9223372036854775807"} {
		for _, fn := range []string{"round", "bytesize", "bytesizesi", "downscale", "percent"} {
			val := "12345.678"
			if fn != "round" && fn != "percent" {
				val = "123456789"
			}
			add(c11In{fn, []c11Arg{ka(val, len(pr)%2 == 0), ka(pr, true)}})
		}
	}
	for _, s := range []string{"", "\"", ",", "\r", "\n", "a,b", "a\"b", " a ", "\"\"", "a\r\nb", ",,", "\x00", "\xff\"", "plain"} {
		add(c11In{"csv", []c11Arg{ka(s, false)}})
		add(c11In{"csv", []c11Arg{ka("x", true), ka(s, false), ka("", true)}})
	}
	return cs
}

func c11Gen(r *Rng, n int, tier string) []Case {
	cases := c11Sweep(r)
	cases = append(cases, c11MultiGen(r.Fork(), tier)...)
	base := len(cases)
	skipped := 0
	for len(cases) < base+n {
		sp := &specs[(len(cases)-base)%len(specs)]
		if r.Chance(1, 3) {
			sp = &specs[r.Intn(len(specs))]
		}
		args := sp.gen(r)
		if r.Chance(1, 14) {
			args = arityFault(r, args)
		}
		if len(args) == 0 {
			continue
		}
		in := c11In{Fn: sp.name, Args: args}
		if c11Skip(in) {
			skipped++
			if skipped > 20*n+1000 { // every helper hangs: give up instead of looping
				break
			}
			continue
		}
		cases = append(cases, c11Case(in))
	}
	return cases
}

func c11Replay(desc json.RawMessage) (Case, error) {
	var d struct {
		Input c11In     `json:"input"`
		Multi *c11Multi `json:"multi"`
	}
	if err := json.Unmarshal(desc, &d); err != nil {
		return Case{}, err
	}
	if d.Multi != nil { // re-run the whole sequence / concurrent batch and report the recorded step
		if specByName[d.Multi.Shape.Fn] == nil {
			return Case{}, fmt.Errorf("unknown function %q", d.Multi.Shape.Fn)
		}
		var cs []Case
		attempts := 1
		if d.Multi.Mode == "concurrent" {
			attempts = 8 // an interleaving is not reproducible at will: repeat the batch until one deviates
		}
		for a := 0; a < attempts; a++ {
			cs = c11MultiCases(*d.Multi)
			if len(cs) == 0 {
				return Case{}, fmt.Errorf("empty %s case", d.Multi.Mode)
			}
			if d.Multi.Mode == "concurrent" { // prefer a context that deviates in this run
				for _, c := range cs {
					if strings.Contains(fmt.Sprint(c.Desc), "differs from the value of this context alone") || strings.Contains(c.Coq, " oP") || strings.Contains(c.Coq, " oH") {
						return c, nil
					}
				}
			}
		}
		k := d.Multi.Index
		if k >= len(cs) {
			k = len(cs) - 1
		}
		return cs[k], nil
	}
	if specByName[d.Input.Fn] == nil {
		return Case{}, fmt.Errorf("unknown function %q", d.Input.Fn)
	}
	return c11Case(d.Input), nil
}

func main() {
	Main(&Prop{
		Name:   "C11",
		Header: "From Coq Require Import List NArith ZArith String.\nFrom RareV Require Import Base.Hex Base.Res Model.Humanize Model.Funcs Corr.C11Case.\nImport ListNotations.\nOpen Scope string_scope.\n",
		Rule: "one case = one call `{f a1 .. an}` of a scalar helper compiled and evaluated through stdlib.NewStdKeyBuilder; " +
			"each argument is a template constant (ASCII without template meta characters) or a match group; values come from " +
			"boundary pools (all int64 boundaries, 10^k and 10^k+-1, step^k, negatives, zero, non-numbers, float specials, " +
			"strings with quotes/commas/CR/LF/NUL/Unicode spaces/invalid UTF-8); 1 in 14 calls has a wrong arity; a " +
			"deterministic sweep covers hi/expbucket/bucket/bucketrange over the whole integer boundary set and csv over " +
			"every special character (boundary values by increasing magnitude, int64 extremes last). Every call runs on its own " +
			"goroutine with a 2 s limit: the outcome ok/panic/hang is part of the observable, a panic or hang fails the property; after a hang " +
			"further calls of the same helper and argument class (arity, sign and digit count of integer arguments) are skipped. SEQUENCE cases: per helper one call compiled once (optimised and unoptimised) and evaluated over 14 contexts (all-empty first and again, a value twice in a row, a non-number twice in a row between values, earlier contexts again in another order); SEQUENCE groups with constant positional parameters (substr pos/length, select index, bucket size, clamp bounds, precisions, lookup table, patterns, fold operands, and per helper all-but-one argument constant) chosen at the boundaries of step values whose length/magnitude varies strongly between steps; CONCURRENT cases: the same compiled call evaluated 60000 times from each of 4-8 goroutines over different contexts after a start barrier (optimised and unoptimised); every single result is compared with the model value of its own context. Non-trivial: the output is not an error marker, or an argument came from a match group. " +
			"Distinct: by (function, argument values, constant/group).",
		Gen:    c11Gen,
		Replay: c11Replay,
		Shard:  250,
	})
}
