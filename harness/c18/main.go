package main

// C18: pkg/expressions/stdlib/funcsTime.go (timeformat, timeattr, time, buckettime, duration,
// durationformat) driven through stdlib.NewStdKeyBuilder().Compile(...).BuildKey(ctx).
// Zone rules are an oracle: for every case the harness supplies the offset / abbreviation Go's
// zone data gives (time.Time.Zone, time.Date), the models do the calendar and the text.

import (
	"encoding/json"
	"fmt"
	"math"
	"os"
	"os/exec"
	"runtime"
	"sort"
	"strconv"
	"strings"
	"sync"
	"time"
	_ "time/tzdata" // zones for the host-zone child processes even where the host has no zoneinfo

	"rare/pkg/expressions"
	"rare/pkg/expressions/stdlib"
	. "verifh/lib"
)

const compileError = "<<COMPILE-ERROR>>"

type c18In struct {
	Kind   string `json:"kind"` // format | attr | time | bucket | duration | durationformat
	Arg    string `json:"arg"`  // the value of {0}
	Fmt    string `json:"fmt,omitempty"`
	Sub    string `json:"sub,omitempty"` // attribute / bucket name
	Tz     string `json:"tz,omitempty"`  // "" = utc
	OneArg bool   `json:"one_arg,omitempty"`
	Class  string `json:"class,omitempty"` // how the instant / string was chosen (informational)
	// a sequence case: ONE compiled expression evaluated on these values of {0}, in this order
	// (an empty string in Seq = the empty context: no elements at all, as the optimiser's probe sees it)
	Seq []string `json:"seq,omitempty"`
	Dir string   `json:"dir,omitempty"` // ascending | descending | mixed (informational)
	// a concurrent case: ONE compiled expression evaluated by Conc goroutines at the same time, goroutine g
	// looping Reps times over the values Seq[i], i = g mod Conc
	// the format argument the implementation gets when it is to auto-detect the layout: omit | empty | cache | auto
	// (the model is given Fmt, the layout the text was written in)
	Detect string `json:"detect,omitempty"`
	// the tz argument is left out of the expression (it defaults to utc); Tz must be ""
	OmitTz bool `json:"omit_tz,omitempty"`
	// the implementation is run in a child process whose HOST zone (TZ) is this one; the expected values do not change
	HostTz string `json:"host_tz,omitempty"`
	Conc   int    `json:"goroutines,omitempty"`
	Reps int `json:"reps,omitempty"`
}

type c18Out struct {
	Out      string            `json:"out"`
	Off      int64             `json:"zone_offset"`
	Abbr     string            `json:"zone_abbr,omitempty"`
	Names    map[string]int64  `json:"zone_names,omitempty"`
	LocOff   int64             `json:"loc_offset"`
	FinOff   int64             `json:"final_offset"`
	GoOracle string            `json:"go_time_oracle,omitempty"`
	Notes    map[string]string `json:"notes,omitempty"`
}

// ---------------------------------------------------------------- tables (independent copies: a
// change of the repo's table shows up as a disagreement with the model, which reads coq/Gen/GenTime.v)
var goLayouts = map[string]string{
	"": time.RFC3339, "ANSIC": time.ANSIC, "UNIX": time.UnixDate, "RUBY": time.RubyDate, "RFC822": time.RFC822,
	"RFC822Z": time.RFC822Z, "RFC1123": time.RFC1123, "RFC1123Z": time.RFC1123Z, "RFC3339": time.RFC3339,
	"RFC3339N": time.RFC3339Nano, "NGINX": "_2/Jan/2006:15:04:05 -0700", "MONTH": "01", "MONTHNAME": "January",
	"MNTH": "Jan", "DAY": "02", "YEAR": "2006", "HOUR": "15", "MINUTE": "04", "SECOND": "05", "TIMEZONE": "MST",
	"NTIMEZONE": "-0700", "NTZ": "-0700", "WEEKDAY": "Monday", "WDAY": "Mon",
}
var fullFormats = []string{"", "ANSIC", "UNIX", "RUBY", "RFC822", "RFC822Z", "RFC1123", "RFC1123Z", "RFC3339", "RFC3339N", "NGINX"}
var partFormats = []string{"MONTH", "MONTHNAME", "MNTH", "DAY", "YEAR", "HOUR", "MINUTE", "SECOND", "TIMEZONE", "NTIMEZONE", "NTZ", "WEEKDAY", "WDAY"}
var rtFormats = []string{"", "RFC3339", "RFC3339N", "RFC1123Z", "RUBY", "NGINX", "RFC822Z"}
var bucketNames = []string{"nanos", "seconds", "minutes", "hours", "days", "months", "years", "n", "s", "m", "h", "d", "mo", "y",
	"", "sec", "min", "hour", "day", "mon", "year", "HOURS", "Days", "nano"}
var badBuckets = []string{"x", "weeks", "hourss", "secondz", "mi nutes"}
var attrNames = []string{"weekday", "week", "yearweek", "quarter", "WEEKDAY", "WEEK", "YEARWEEK", "QUARTER", "Quarter"}

func layoutOf(f string) string {
	if l, ok := goLayouts[strings.ToUpper(f)]; ok {
		return l
	}
	return f
}

// ---------------------------------------------------------------- zones
type zoneInfo struct {
	name   string
	loc    *time.Location
	class  string
	trans  []int64          // DST / rule changes in [1970, 2100], unix seconds
	names  map[string]int64 // abbreviation -> offset, only if functional over the sampled range
	nameOK bool
	nameOffs map[string][]int64 // every offset seen for an abbreviation
}

var zones []*zoneInfo
var zoneByName = map[string]*zoneInfo{}

const t1970 = int64(0)
const t2101 = int64(4133980800) // 2101-01-01

func offsetAt(loc *time.Location, u int64) (string, int64) {
	n, o := time.Unix(u, 0).In(loc).Zone()
	return n, int64(o)
}

func loadZones() {
	if zones != nil {
		return
	}
	cands := []struct{ name, class string }{
		{"", "utc"}, {"utc", "utc"}, {"Etc/GMT+5", "fixed"}, {"Etc/GMT-14", "fixed"}, {"Asia/Kolkata", "fixed-half-hour"},
		{"America/New_York", "dst"}, {"Europe/Berlin", "dst"}, {"Australia/Lord_Howe", "dst-half-hour"},
		// negative and 45-minute fractional offsets
		{"America/St_Johns", "dst-negative-half-hour"}, {"Pacific/Marquesas", "fixed-negative-half-hour"},
		{"America/Caracas", "historical-negative-half-hour"}, {"Asia/Kathmandu", "fixed-45-minutes"}, {"Pacific/Chatham", "dst-45-minutes"},
	}
	for _, c := range cands {
		var loc *time.Location
		if c.class == "utc" {
			loc = time.UTC
		} else {
			l, err := time.LoadLocation(c.name)
			if err != nil {
				continue
			}
			loc = l
		}
		z := &zoneInfo{name: c.name, loc: loc, class: c.class, names: map[string]int64{}, nameOK: true, nameOffs: map[string][]int64{}}
		if c.class != "utc" {
			_, prev := offsetAt(loc, t1970)
			for u := t1970; u < t2101; u += 86400 {
				n, o := offsetAt(loc, u)
				if old, ok := z.names[n]; ok && old != o {
					z.nameOK = false
				}
				z.names[n] = o
				z.addNameOff(n, o)
				if o != prev {
					lo, hi := u-86400, u // offset(lo) = prev, offset(hi) = o
					for hi-lo > 1 {
						mid := (lo + hi) / 2
						if _, om := offsetAt(loc, mid); om == prev {
							lo = mid
						} else {
							hi = mid
						}
					}
					z.trans = append(z.trans, hi)
					prev = o
				}
			}
			// abbreviations in force around the extreme instants (outside 1970..2100)
			for _, e := range extremes {
				for u := e - 8*86400; u <= e+8*86400; u += 43200 {
					n, o := offsetAt(loc, u)
					if old, ok := z.names[n]; ok && old != o {
						z.nameOK = false
					}
					z.names[n] = o
					z.addNameOff(n, o)
				}
			}
		}
		zones = append(zones, z)
		zoneByName[c.name] = z
	}
}

func (z *zoneInfo) addNameOff(n string, o int64) {
	for _, x := range z.nameOffs[n] {
		if x == o {
			return
		}
	}
	z.nameOffs[n] = append(z.nameOffs[n], o)
}

// Location.lookupName, from the outside: the offset of the abbreviation that is in force at wall-offset
// (Go's first pass); with several or no such candidates the answer depends on the order of the zone
// table and is reported as not determined
func (z *zoneInfo) resolveName(abbr string, wall int64) (off int64, found, determined bool) {
	offs := z.nameOffs[abbr]
	if len(offs) == 0 {
		return 0, false, true
	}
	var valid []int64
	for _, o := range offs {
		if n, oo := offsetAt(z.loc, wall-o); n == abbr && oo == o {
			valid = append(valid, o)
		}
	}
	if len(valid) == 1 {
		return valid[0], true, true
	}
	// none in force (Go falls back to the first entry of that name in the zone table, which may be a
	// historical one never sampled here) or several: not determined
	return 0, false, false
}

func zoneOf(name string) *zoneInfo {
	loadZones()
	if z, ok := zoneByName[name]; ok {
		return z
	}
	if strings.EqualFold(name, "utc") {
		return zoneByName[""]
	}
	l, err := time.LoadLocation(name)
	if err != nil {
		return nil
	}
	return &zoneInfo{name: name, loc: l, class: "other", names: map[string]int64{}, nameOK: false, nameOffs: map[string][]int64{}}
}

// ---------------------------------------------------------------- running the implementation
func quoteArg(s string) string { return "\"" + s + "\"" }

func c18Expr(in c18In) string {
	tz := " " + quoteArg(in.Tz)
	if in.OmitTz {
		tz = ""
	}
	switch in.Kind {
	case "format":
		if in.OneArg {
			return "{timeformat {0}}"
		}
		return "{timeformat {0} " + quoteArg(in.Fmt) + tz + "}"
	case "attr":
		return "{timeattr {0} " + quoteArg(in.Sub) + tz + "}"
	case "time":
		if in.Detect == "omit" {
			return "{time {0}}"
		}
		return "{time {0} " + quoteArg(detectArg(in)) + tz + "}"
	case "bucket":
		if in.Detect == "omit" {
			return "{buckettime {0} " + quoteArg(in.Sub) + "}"
		}
		return "{buckettime {0} " + quoteArg(in.Sub) + " " + quoteArg(detectArg(in)) + tz + "}"
	case "attrtime":
		return "{timeattr {time {0} " + quoteArg(in.Fmt) + tz + "} " + quoteArg(in.Sub) + tz + "}"
	case "duration":
		return "{duration {0}}"
	case "durationformat":
		return "{durationformat {0}}"
	case "roundtrip":
		return "{time {timeformat {0} " + quoteArg(in.Fmt) + tz + "} " + quoteArg(in.Fmt) + tz + "}"
	case "reformat":
		return "{timeformat {time {0} " + quoteArg(in.Fmt) + tz + "} " + quoteArg(in.Sub) + tz + "}"
	case "durroundtrip":
		return "{duration {durationformat {0}}}"
	case "durreformat":
		return "{durationformat {duration {0}}}"
	}
	return ""
}

func detectArg(in c18In) string {
	switch in.Detect {
	case "empty":
		return ""
	case "cache", "auto":
		return in.Detect
	}
	return in.Fmt
}

func ctxOf(arg string) *expressions.KeyBuilderContextArray {
	if arg == "" {
		return &expressions.KeyBuilderContextArray{} // the empty context
	}
	return &expressions.KeyBuilderContextArray{Elements: []string{arg}}
}

func c18Compile(in c18In) (c *expressions.CompiledKeyBuilder, fail string) {
	defer func() {
		if e := recover(); e != nil {
			c, fail = nil, "<<PANIC>> "+fmt.Sprint(e)
		}
	}()
	cc, err := stdlib.NewStdKeyBuilder().Compile(c18Expr(in))
	if err != nil {
		return nil, compileError
	}
	return cc, ""
}

func c18Eval(c *expressions.CompiledKeyBuilder, arg string) (out string) {
	defer func() {
		if e := recover(); e != nil {
			out = "<<PANIC>> " + fmt.Sprint(e)
		}
	}()
	return c.BuildKey(ctxOf(arg))
}

// ONE compiled expression shared by `goroutines` goroutines that start together; goroutine g evaluates the values
// args[i], i = g mod goroutines, reps times over. expected[i] = the value of args[i] on a freshly compiled expression,
// evaluated alone. Returns, per value, the first concurrent result that differs from expected (or expected), and the
// number of differing results.
func c18ImplConc(in c18In, args []string, goroutines, reps int) (outs []string, expected []string, wrong []int) {
	if runtime.GOMAXPROCS(0) < 8 {
		runtime.GOMAXPROCS(8)
	}
	expected = make([]string, len(args))
	for i, a := range args {
		it := in
		it.Arg = a
		expected[i] = c18Impl(it)
	}
	outs = append([]string(nil), expected...)
	wrong = make([]int, len(args))
	c, fail := c18Compile(in)
	if c == nil {
		for i := range outs {
			outs[i] = fail
		}
		return
	}
	start := make(chan struct{})
	var wg sync.WaitGroup
	for g := 0; g < goroutines; g++ {
		wg.Add(1)
		go func(g int) {
			defer wg.Done()
			<-start
			for rep := 0; rep < reps; rep++ {
				for i := g; i < len(args); i += goroutines { // only this goroutine touches index i
					if got := c18Eval(c, args[i]); got != expected[i] {
						if wrong[i] == 0 {
							outs[i] = got
						}
						wrong[i]++
					}
				}
			}
		}(g)
	}
	close(start)
	wg.Wait()
	return
}

// compiles the expression ONCE and evaluates the compiled expression on every argument, in order
func c18ImplSeq(in c18In, args []string) (outs []string) {
	if in.HostTz != "" && !inHostChild {
		return hostOuts(in, args)
	}
	outs = make([]string, len(args))
	c, fail := c18Compile(in)
	for i, a := range args {
		if c == nil {
			outs[i] = fail
		} else {
			outs[i] = c18Eval(c, a)
		}
	}
	return
}

func c18Impl(in c18In) string { return c18ImplSeq(in, []string{in.Arg})[0] }

func zc(i int64) string { return fmt.Sprintf("(%d)%%Z", i) }

func namesCoq(m map[string]int64) string {
	keys := make([]string, 0, len(m))
	for k := range m {
		keys = append(keys, k)
	}
	sort.Strings(keys)
	parts := make([]string, len(keys))
	for i, k := range keys {
		parts[i] = "(" + HS(k) + ", " + zc(m[k]) + ")"
	}
	return CoqList(parts)
}

// one evaluation: the Coq term (input + oracle values + the implementation's output), tags
func c18Term(in c18In, implOut string) (string, c18Out, []string, bool) {
	loadZones()
	o := c18Out{Out: implOut, Notes: map[string]string{}}
	tags := []string{"kind=" + in.Kind}
	if in.Class != "" {
		tags = append(tags, "class="+in.Class)
	}
	z := zoneOf(in.Tz)
	if z != nil && in.Kind != "duration" && in.Kind != "durationformat" {
		tags = append(tags, "zone="+z.class)
	}
	nontrivial := in.Class != "" && in.Class != "plain"
	var coq string
	switch in.Kind {
	case "format", "attr":
		u, perr := strconv.ParseInt(in.Arg, 10, 64)
		var t time.Time
		if z == nil {
			z = zoneByName[""]
			o.Notes["zone"] = "not loadable on this host"
		}
		if perr == nil {
			t = time.Unix(u, 0).In(z.loc)
			o.Abbr, o.Off = offsetAt(z.loc, u)
		} else {
			tags = append(tags, "arg-not-an-integer")
		}
		if in.Kind == "format" {
			f := in.Fmt
			if in.OneArg {
				f = time.RFC3339
			}
			tags = append(tags, "fmt="+strings.ToUpper(in.Fmt))
			if perr == nil {
				o.GoOracle = t.Format(layoutOf(f))
				if o.GoOracle != o.Out {
					tags = append(tags, "go-time-oracle-differs")
				}
			}
			coq = fmt.Sprintf("cf %s %s %s %s %s", HS(in.Arg), HS(f), zc(o.Off), HS(o.Abbr), HS(o.Out))
		} else {
			tags = append(tags, "attr="+strings.ToUpper(in.Sub))
			if perr == nil {
				switch strings.ToUpper(in.Sub) {
				case "WEEKDAY":
					o.GoOracle = strconv.Itoa(int(t.Weekday()))
				case "WEEK":
					_, w := t.ISOWeek()
					o.GoOracle = strconv.Itoa(w)
				case "YEARWEEK":
					y, w := t.ISOWeek()
					o.GoOracle = strconv.Itoa(y) + "-" + strconv.Itoa(w)
				case "QUARTER":
					o.GoOracle = strconv.Itoa((int(t.Month())-1)/3 + 1)
					if int(t.Month())%3 == 0 {
						tags = append(tags, "kf:C18-quarter", "month-divisible-by-3")
					}
				}
				if o.GoOracle != "" && o.GoOracle != o.Out {
					tags = append(tags, "go-time-oracle-differs")
				}
			}
			coq = fmt.Sprintf("ca %s %s %s %s", HS(in.Arg), HS(in.Sub), zc(o.Off), HS(o.Out))
		}
	case "roundtrip":
		if z == nil {
			z = zoneByName[""]
		}
		tags = append(tags, "fmt="+strings.ToUpper(in.Fmt))
		layout := layoutOf(in.Fmt)
		names := map[string]int64{}
		if u, perr := strconv.ParseInt(in.Arg, 10, 64); perr == nil {
			o.Abbr, o.Off = offsetAt(z.loc, u)
			// the text in the middle, by Go's time package, and what the zone rules say about reading it back
			var ok bool
			names, o.LocOff, o.FinOff, ok = timeOracle(z, layout, time.Unix(u, 0).In(z.loc).Format(layout))
			if !ok {
				tags = append(tags, "unparseable")
			}
			o.GoOracle = in.Arg
		} else {
			tags = append(tags, "arg-not-an-integer")
		}
		if len(names) > 0 {
			o.Names = names
		}
		coq = fmt.Sprintf("crt %s %s %s %s %s %s %s %s", HS(in.Arg), HS(in.Fmt), zc(o.Off), HS(o.Abbr), namesCoq(names), zc(o.LocOff), zc(o.FinOff), HS(o.Out))
	case "reformat":
		if z == nil {
			z = zoneByName[""]
		}
		tags = append(tags, "fmt="+strings.ToUpper(in.Fmt))
		layout := layoutOf(in.Fmt)
		names, lo, fo, ok := timeOracle(z, layout, in.Arg)
		o.LocOff, o.FinOff = lo, fo
		if !ok {
			tags = append(tags, "unparseable")
		} else if v, err := time.ParseInLocation(layout, in.Arg, z.loc); err == nil {
			o.Abbr, o.Off = offsetAt(z.loc, v.Unix())
		}
		if len(names) > 0 {
			o.Names = names
		}
		coq = fmt.Sprintf("cft %s %s %s %s %s %s %s %s %s", HS(in.Arg), HS(in.Fmt), namesCoq(names), zc(o.LocOff), zc(o.FinOff), HS(in.Sub), zc(o.Off), HS(o.Abbr), HS(o.Out))
	case "attrtime":
		if z == nil {
			z = zoneByName[""]
		}
		tags = append(tags, "fmt="+strings.ToUpper(in.Fmt), "attr="+strings.ToUpper(in.Sub))
		layout := layoutOf(in.Fmt)
		names, lo, fo, ok := timeOracle(z, layout, in.Arg)
		o.LocOff, o.FinOff = lo, fo
		if !ok {
			tags = append(tags, "unparseable")
		} else if v, err := time.ParseInLocation(layout, in.Arg, z.loc); err == nil {
			o.Abbr, o.Off = offsetAt(z.loc, v.Unix())
			if strings.EqualFold(in.Sub, "quarter") && int(v.In(z.loc).Month())%3 == 0 {
				tags = append(tags, "kf:C18-quarter")
			}
		}
		if len(names) > 0 {
			o.Names = names
		}
		coq = fmt.Sprintf("cat %s %s %s %s %s %s %s %s", HS(in.Arg), HS(in.Fmt), namesCoq(names), zc(o.LocOff), zc(o.FinOff), HS(in.Sub), zc(o.Off), HS(o.Out))
	case "durroundtrip":
		coq = fmt.Sprintf("cdr %s %s", HS(in.Arg), HS(o.Out))
	case "durreformat":
		coq = fmt.Sprintf("cdf %s %s", HS(in.Arg), HS(o.Out))
	case "time", "bucket":
		if z == nil {
			z = zoneByName[""]
		}
		layout := layoutOf(in.Fmt)
		tags = append(tags, "fmt="+strings.ToUpper(in.Fmt))
		names, lo, fo, ok := timeOracle(z, layout, in.Arg)
		o.LocOff, o.FinOff = lo, fo
		if !ok {
			tags = append(tags, "unparseable")
		}
		if len(names) > 0 {
			o.Names = names
		}
		if in.Detect != "" {
			tags = append(tags, "auto-detected-layout="+in.Detect)
		}
		if in.Kind == "time" {
			coq = fmt.Sprintf("ct %s %s %s %s %s %s", HS(in.Arg), HS(in.Fmt), namesCoq(names), zc(o.LocOff), zc(o.FinOff), HS(o.Out))
		} else {
			tags = append(tags, "bucket="+strings.ToLower(in.Sub))
			coq = fmt.Sprintf("cb %s %s %s %s %s %s %s", HS(in.Arg), HS(in.Sub), HS(in.Fmt), namesCoq(names), zc(o.LocOff), zc(o.FinOff), HS(o.Out))
		}
	case "duration":
		if d, err := time.ParseDuration(in.Arg); err == nil {
			o.GoOracle = strconv.FormatInt(int64(d/time.Second), 10)
			sec, ns := int64(d/time.Second), int64(d%time.Second)
			if ns != 0 && (sec >= 1<<24 || sec <= -(1<<24)) {
				tags = append(tags, "kf:C18-duration-float", "subsecond-part-beyond-2^24s")
			}
			if o.GoOracle != o.Out {
				tags = append(tags, "go-time-oracle-differs")
			}
		} else {
			tags = append(tags, "unparseable")
		}
		coq = fmt.Sprintf("cd %s %s", HS(in.Arg), HS(o.Out))
	case "durationformat":
		if s, err := strconv.ParseInt(in.Arg, 10, 64); err == nil {
			if s > math.MaxInt64/1000000000 || s < math.MinInt64/1000000000 {
				tags = append(tags, "int64-overflow")
			}
		} else {
			tags = append(tags, "arg-not-an-integer")
		}
		coq = fmt.Sprintf("cg %s %s", HS(in.Arg), HS(o.Out))
	}
	if len(o.Notes) == 0 {
		o.Notes = nil
	}
	return coq, o, tags, nontrivial
}

// zone oracle for reading a time string in a location: the offset of the abbreviation in the string (if the
// location knows it), the offset the location's rules give to the wall clock Go reads from the string (as UTC),
// and the offset at the resulting instant
func timeOracleD(z *zoneInfo, layout, str string) (names map[string]int64, locOff, finOff int64, ok, determined bool) {
	names = map[string]int64{}
	w, err := time.ParseInLocation(layout, str, time.UTC)
	if err != nil {
		return names, 0, 0, false, true
	}
	abbr, woff := w.Zone()
	wall := w.Unix() + int64(woff)
	exp := time.Date(w.Year(), w.Month(), w.Day(), w.Hour(), w.Minute(), w.Second(), 0, z.loc)
	locOff = wall - exp.Unix()
	_, finOff = offsetAt(z.loc, exp.Unix())
	determined = true
	if abbr != "" && abbr != "UTC" && woff == 0 {
		no, found, det := z.resolveName(abbr, wall)
		determined = det
		if found {
			names[abbr] = no
			_, finOff = offsetAt(z.loc, wall-no)
		}
	}
	return names, locOff, finOff, true, determined
}

func timeOracle(z *zoneInfo, layout, str string) (map[string]int64, int64, int64, bool) {
	n, l, f, ok, _ := timeOracleD(z, layout, str)
	return n, l, f, ok
}

// false when the abbreviation look-up for this value cannot be told from outside (the case then runs in utc)
func oracleDetermined(in c18In, arg string) bool {
	z := zoneOf(in.Tz)
	if z == nil || z.class == "utc" {
		return true
	}
	layout := layoutOf(in.Fmt)
	switch in.Kind {
	case "time", "bucket", "reformat", "attrtime":
		_, _, _, _, det := timeOracleD(z, layout, arg)
		return det
	case "roundtrip":
		if u, err := strconv.ParseInt(arg, 10, 64); err == nil {
			_, _, _, _, det := timeOracleD(z, layout, time.Unix(u, 0).In(z.loc).Format(layout))
			return det
		}
	}
	return true
}

// input adjustments decided before the implementation runs
func settle(in c18In) c18In {
	loadZones()
	if in.OmitTz {
		in.Tz = ""
	}
	if in.Conc > 0 {
		in.HostTz = ""
	}
	for _, a := range append([]string{in.Arg}, in.Seq...) {
		if !oracleDetermined(in, a) {
			in.Tz, in.Class = "", in.Class+"(abbreviation-lookup-not-determined:utc)"
			break
		}
	}
	return in
}

func c18Case(in c18In) Case {
	in = settle(in)
	c := c18CaseSettled(in)
	if in.HostTz != "" {
		c.Tags = append(c.Tags, "host-tz:"+in.HostTz)
		c.Nontrivial = true
	}
	if in.OmitTz {
		c.Tags = append(c.Tags, "tz-argument-omitted")
	}
	return c
}

func c18CaseSettled(in c18In) Case {
	kb, _ := json.Marshal(in)
	if len(in.Seq) == 0 {
		coq, o, tags, nontrivial := c18Term(in, c18Impl(in))
		return Case{Coq: "c1 (" + coq + ")", Desc: map[string]any{"input": in, "impl": o}, Key: string(kb), Nontrivial: nontrivial, Tags: tags}
	}
	// one compiled expression, many contexts: one after the other, or by several goroutines at once
	var outs []string
	var tags []string
	impl := map[string]any{}
	if in.Conc > 0 {
		var expected []string
		var wrong []int
		outs, expected, wrong = c18ImplConc(in, in.Seq, in.Conc, in.Reps)
		total := 0
		for _, w := range wrong {
			total += w
		}
		impl["fresh_sequential"], impl["wrong_results_per_value"], impl["wrong_results"] = expected, wrong, total
		impl["evaluations"] = in.Reps * len(in.Seq)
		tags = []string{"concurrent", "concurrent-of=" + in.Kind, fmt.Sprintf("goroutines=%d", in.Conc)}
	} else {
		outs = c18ImplSeq(in, in.Seq)
		tags = []string{"sequence", "sequence-of=" + in.Kind, "sequence-" + in.Dir, fmt.Sprintf("sequence-len=%d", len(in.Seq))}
	}
	terms := make([]string, len(in.Seq))
	items := make([]c18Out, len(in.Seq))
	seen := map[string]bool{}
	for i, a := range in.Seq {
		it := in
		it.Seq, it.Arg = nil, a
		coq, o, tg, _ := c18Term(it, outs[i])
		terms[i], items[i] = coq, o
		for _, t := range tg {
			if !seen[t] && !strings.HasPrefix(t, "kind=") {
				seen[t] = true
				tags = append(tags, t)
			}
		}
	}
	if in.Conc > 0 {
		tags = append([]string{"kind=concurrent"}, tags...)
	} else {
		tags = append([]string{"kind=sequence"}, tags...)
	}
	impl["outs"], impl["items"] = outs, items
	return Case{Coq: "cs [" + strings.Join(terms, "; ") + "]", Desc: map[string]any{"input": in, "impl": impl},
		Key: string(kb), Nontrivial: true, Tags: tags}
}

// ---------------------------------------------------------------- generators
type bp struct {
	t     int64
	class string
}

var breakpoints []bp

func buildBreakpoints() {
	if breakpoints != nil {
		return
	}
	loadZones()
	for y := 1970; y <= 2100; y++ {
		for m := 1; m <= 12; m++ {
			cl := "month-boundary"
			if m%3 == 1 {
				cl = "quarter-boundary"
			}
			if m == 1 {
				cl = "year-boundary"
			}
			breakpoints = append(breakpoints, bp{time.Date(y, time.Month(m), 1, 0, 0, 0, 0, time.UTC).Unix(), cl})
		}
		// the Monday on or before Jan 4 = start of ISO week 1
		j4 := time.Date(y, 1, 4, 0, 0, 0, 0, time.UTC)
		mon := j4.AddDate(0, 0, -((int(j4.Weekday()) + 6) % 7))
		breakpoints = append(breakpoints, bp{mon.Unix(), "iso-week1-start"})
		// leap day
		breakpoints = append(breakpoints, bp{time.Date(y, 3, 1, 0, 0, 0, 0, time.UTC).Unix(), "feb-mar"})
	}
	for _, z := range zones {
		for _, tr := range z.trans {
			breakpoints = append(breakpoints, bp{tr, "dst-change:" + z.name})
		}
	}
}

var extremes = []int64{0, -1, 1, 2147483647, 2147483648, -2147483648, 951782400, 4107542399, 4102444800,
	-62167219200, -62135596800, 253402300799, 32503680000, -86400, 86399, 1583020800, 1606780800}

// an instant near a breakpoint, and the zone it is meant for
func genInstant(r *Rng) (int64, *zoneInfo, string) {
	buildBreakpoints()
	z := Pick(r, zones)
	if r.Chance(1, 40) {
		return Pick(r, extremes), z, "extreme"
	}
	b := Pick(r, breakpoints)
	if strings.HasPrefix(b.class, "dst-change:") {
		z = zoneByName[strings.TrimPrefix(b.class, "dst-change:")]
		b.class = "dst-change"
	}
	t := b.t
	if b.class != "dst-change" && r.Chance(1, 2) {
		// the boundary in local time
		_, off := offsetAt(z.loc, t)
		t -= off
	}
	switch r.Intn(6) {
	case 0:
		t += int64(r.Range(-1, 1))
	case 1:
		t += int64(r.Range(-48, 48)) * 3600
	case 2:
		t += int64(r.Range(-48, 48))*3600 + int64(r.Range(-1, 1))
	case 3:
		t += int64(r.Range(-172800, 172800))
	case 4:
		t += int64(r.Range(-7, 7)) * 86400
	case 5:
		t += int64(r.Range(-3600, 3600))
	}
	return t, z, b.class
}

func mixCase(r *Rng, s string) string {
	switch r.Intn(4) {
	case 0:
		return strings.ToLower(s)
	case 1:
		b := []byte(strings.ToLower(s))
		if len(b) > 0 {
			b[0] = byte(strings.ToUpper(string(b[:1]))[0])
		}
		return string(b)
	}
	return s
}

func mutate(r *Rng, s string) string {
	b := []byte(s)
	if len(b) == 0 {
		return "x"
	}
	switch r.Intn(8) {
	case 0: // a digit changed
		for k := 0; k < 20; k++ {
			i := r.Intn(len(b))
			if b[i] >= '0' && b[i] <= '9' {
				b[i] = byte('0' + r.Intn(10))
				break
			}
		}
	case 1: // truncated
		b = b[:r.Intn(len(b))]
	case 2: // trailing text
		b = append(b, Pick(r, []string{" ", "x", "0", ".5", "Z"})...)
	case 3: // a byte replaced
		b[r.Intn(len(b))] = Pick(r, []byte{' ', 'x', ':', '-', '+', '9', 'Z', ',', '.'})
	case 4: // extra space
		i := r.Intn(len(b) + 1)
		b = append(b[:i:i], append([]byte{' '}, b[i:]...)...)
	case 5: // fractional second inserted after the first hh:mm:ss
		if i := strings.Index(s, ":"); i >= 0 && i+6 <= len(s) {
			j := i + 6
			b = []byte(s[:j] + Pick(r, []string{".5", ",25", ".123456789", ".1234567891", ".", ".x"}) + s[j:])
		}
	case 6: // case of letters changed
		b = []byte(strings.ToUpper(s))
	case 7: // day 31 / month 13 / hour 24 / second 60 style range errors
		s2 := s
		for _, p := range [][2]string{{"-01-", "-13-"}, {"-02-", "-02-3"}, {":00:", ":60:"}, {"T0", "T24"}, {" 0", " 32"}} {
			if strings.Contains(s2, p[0]) && r.Bool() {
				s2 = strings.Replace(s2, p[0], p[1], 1)
				break
			}
		}
		b = []byte(s2)
	}
	return string(b)
}

func genFormat(r *Rng) c18In {
	t, z, cl := genInstant(r)
	in := c18In{Kind: "format", Arg: strconv.FormatInt(t, 10), Tz: z.name, Class: cl}
	switch x := r.Intn(20); {
	case x < 12:
		in.Fmt = mixCase(r, Pick(r, fullFormats))
	case x < 17:
		in.Fmt = mixCase(r, Pick(r, partFormats))
	case x == 17:
		in.OneArg, in.Tz = true, ""
	case x == 18: // a raw layout made of table layouts
		in.Fmt = Pick(r, []string{time.RFC3339, "2006-01-02 15:04:05", "_2/Jan/2006:15:04:05 -0700", "Monday, 02-Jan-06 15:04:05 MST", "2006-01-02T15:04:05.999999999Z07:00", "Jan _2 15:04:05", "02 January 2006 -0700"})
	default:
		in.Arg = Pick(r, []string{"", "abc", "1.5", "0x10", "9223372036854775808", " 1", "1e3", "--1", "+5", "-0"})
		in.Fmt = Pick(r, fullFormats)
		in.Class = "bad-integer"
	}
	return in
}

func genAttr(r *Rng) c18In {
	t, z, cl := genInstant(r)
	in := c18In{Kind: "attr", Arg: strconv.FormatInt(t, 10), Tz: z.name, Class: cl, Sub: Pick(r, attrNames)}
	switch r.Intn(40) {
	case 0:
		in.Sub = Pick(r, []string{"month", "bogus", "", "weeks"})
		in.Class = "bad-attribute"
	case 1:
		in.Arg = Pick(r, []string{"", "abc", "1.5", "9223372036854775808"})
		in.Class = "bad-integer"
	}
	return in
}

// a time string: what Go prints for an instant in a zone with one of the table layouts
func genTimeString(r *Rng, formats []string) (string, string, *zoneInfo, string) {
	t, z, cl := genInstant(r)
	f := Pick(r, formats)
	layout := layoutOf(f)
	tm := time.Unix(t, 0).In(z.loc)
	if strings.Contains(layout, ".999") && r.Chance(1, 2) {
		tm = time.Unix(t, int64(Pick(r, []int{500000000, 1, 999999999, 123456789, 120000000, 1000}))).In(z.loc)
	}
	return tm.Format(layout), f, z, cl
}

// ---- literal timestamps with an explicit numeric offset: every sign x minute part x a spread of hours ----
var offsetLayouts = []string{"RFC3339", "RFC3339N", "RFC1123Z", "RFC822Z", "RUBY", "NGINX"}

// what Go prints for the instant at that offset; a zero offset can also be written with a minus sign
func literalStamp(t int64, off int, f string, negZero bool) string {
	s := time.Unix(t, 0).In(time.FixedZone("", off)).Format(layoutOf(f))
	if off == 0 && negZero {
		switch {
		case strings.HasSuffix(s, "Z"):
			s = s[:len(s)-1] + "-00:00"
		case strings.Contains(s, "+0000"):
			s = strings.Replace(s, "+0000", "-0000", 1)
		case strings.Contains(s, "+00:00"):
			s = strings.Replace(s, "+00:00", "-00:00", 1)
		}
	}
	return s
}

func offsetClass(off int) string {
	sign := "positive"
	if off < 0 {
		sign, off = "negative", -off
	} else if off == 0 {
		sign = "zero"
	}
	if m := off / 60 % 60; m%15 == 0 {
		return fmt.Sprintf("offset-%s-min%02d", sign, m)
	}
	return "offset-" + sign + "-other-minute"
}

func offsetCase(kind string, t int64, off int, f string, z *zoneInfo, negZero bool) Case {
	in := c18In{Kind: kind, Arg: literalStamp(t, off, f, negZero), Fmt: f, Tz: z.name, Class: "explicit-offset"}
	if kind == "bucket" {
		in.Sub = "minutes"
	}
	if kind == "reformat" {
		in.Sub = "RFC3339"
	}
	c := c18Case(in)
	c.Tags = append(c.Tags, offsetClass(off))
	if off == 0 && negZero {
		c.Tags = append(c.Tags, "offset-minus-zero")
	}
	return c
}

// every offset layout x both signs x minutes {00,15,30,45} x hours {0,3,5,9,12,14} (+ "-00:00"), through time / buckettime / reformat
func c18OffsetExhaustive() []Case {
	loadZones()
	buildBreakpoints()
	var cases []Case
	k := 0
	for _, f := range offsetLayouts {
		for _, sign := range []int{1, -1} {
			for _, hh := range []int{0, 3, 5, 9, 12, 14} {
				for _, mm := range []int{0, 15, 30, 45} {
					off := sign * (hh*3600 + mm*60)
					t := breakpoints[(k*131)%len(breakpoints)].t + int64(k%7) - 3
					z := zones[k%len(zones)]
					kind := []string{"time", "time", "bucket", "time", "reformat"}[k%5]
					cases = append(cases, offsetCase(kind, t, off, f, z, sign < 0))
					k++
				}
			}
		}
	}
	return cases
}

// any whole-minute offset within +-24 h (the round-trip theorems quantify over all of them)
func genOffsetCase(r *Rng) Case {
	t, z, _ := genInstant(r)
	off := r.Range(0, 23)*3600 + r.Range(0, 59)*60
	if r.Chance(1, 2) {
		off = r.Range(0, 15)*3600 + Pick(r, []int{0, 15, 30, 45})*60
	}
	if r.Bool() {
		off = -off
	}
	kind := Pick(r, []string{"time", "time", "time", "bucket", "reformat"})
	return offsetCase(kind, t, off, Pick(r, offsetLayouts), z, r.Bool())
}

func genTime(r *Rng) c18In {
	formats := rtFormats
	switch x := r.Intn(10); {
	case x < 5:
	case x < 8:
		formats = fullFormats
	default:
		formats = partFormats
	}
	s, f, z, cl := genTimeString(r, formats)
	in := c18In{Kind: "time", Arg: s, Fmt: mixCase(r, f), Tz: z.name, Class: cl}
	if f == "" {
		in.Fmt = "RFC3339" // an empty format means auto-detection (not modelled)
	}
	if r.Chance(1, 4) {
		in.Arg = mutate(r, s)
		in.Class = "mutated"
	} else if r.Chance(1, 30) {
		// a string printed for another zone / format
		s2, _, _, _ := genTimeString(r, fullFormats)
		in.Arg = s2
		in.Class = "other-format"
	}
	return in
}

func genBucket(r *Rng) c18In {
	formats := []string{"RFC3339", "RFC3339N", "RFC3339N", "RFC1123Z", "NGINX", "RUBY", "ANSIC", "RFC1123", "UNIX", "RFC822Z"}
	s, f, z, cl := genTimeString(r, formats)
	in := c18In{Kind: "bucket", Arg: s, Fmt: f, Tz: z.name, Class: cl, Sub: Pick(r, bucketNames)}
	switch r.Intn(30) {
	case 0:
		in.Sub = Pick(r, badBuckets)
		in.Class = "bad-bucket"
	case 1, 2:
		in.Arg = mutate(r, s)
		in.Class = "mutated"
	}
	return in
}

var durBoundaries = []int64{0, 1, 59, 60, 61, 3599, 3600, 3601, 86399, 86400, 90061, 359999, 360000, 8388607, 8388608, 16777216,
	9223372035, 9223372036, 9223372037, 9223372038, 18446744073, 18446744074, 1 << 40, math.MaxInt64, math.MinInt64, math.MaxInt64 / 1000000000}

func genDurSecs(r *Rng) int64 {
	switch x := r.Intn(10); {
	case x < 3:
		s := Pick(r, durBoundaries)
		if r.Bool() && s != math.MinInt64 {
			s = -s
		}
		return s
	case x < 6:
		return int64(r.Range(-100000, 100000))
	case x < 8:
		return int64(r.Range(0, 59)) + 60*int64(r.Range(0, 59)) + 3600*int64(r.Range(0, 3000))
	case x < 9:
		return int64(r.U64()%18446744073) - 9223372036
	}
	return int64(r.U64())
}

func genDurationFormat(r *Rng) c18In {
	in := c18In{Kind: "durationformat", Arg: strconv.FormatInt(genDurSecs(r), 10), Class: "seconds"}
	if r.Chance(1, 25) {
		in.Arg = Pick(r, []string{"", "abc", "1.5", "9223372036854775808", "1h", "+7", "-0", "007"})
		in.Class = "bad-integer"
	}
	return in
}

var durUnits = []struct {
	u   string
	dec int // decimal places of the unit in nanoseconds that are powers of ten (fraction digits that stay exact)
}{{"ns", 0}, {"us", 3}, {"µs", 3}, {"μs", 3}, {"ms", 6}, {"s", 9}, {"m", 9}, {"h", 9}}

func genDuration(r *Rng) c18In {
	in := c18In{Kind: "duration", Class: "components"}
	switch x := r.Intn(12); {
	case x < 4: // what durationformat prints
		s := genDurSecs(r)
		in.Arg = (time.Duration(s) * time.Second).String()
		in.Class = "printed-by-durationformat"
	case x < 9: // components, fractions with exactly representable digits, whole part small when a fraction is present
		var sb strings.Builder
		if r.Chance(1, 4) {
			sb.WriteString(Pick(r, []string{"-", "+"}))
		}
		n := r.Range(1, 4)
		for i := 0; i < n; i++ {
			u := Pick(r, durUnits)
			whole := r.Intn(1000)
			if r.Chance(1, 6) {
				whole = r.Intn(2000000)
			}
			switch r.Intn(5) {
			case 0:
				if u.dec > 0 {
					digits := r.Range(1, minInt(u.dec, 6))
					frac := fmt.Sprintf("%0*d", digits, r.Intn(pow10(digits)))
					fmt.Fprintf(&sb, "%d.%s%s", whole%1000, frac, u.u)
					continue
				}
				fmt.Fprintf(&sb, "%d%s", whole, u.u)
			case 1:
				if u.dec > 0 {
					fmt.Fprintf(&sb, ".%d%s", r.Range(1, 9), u.u)
					continue
				}
				fmt.Fprintf(&sb, "%d%s", whole, u.u)
			case 2:
				fmt.Fprintf(&sb, "%d.%s", whole, u.u)
			default:
				fmt.Fprintf(&sb, "%d%s", whole, u.u)
			}
		}
		in.Arg = sb.String()
	case x < 10: // limits
		in.Arg = Pick(r, []string{"2562047h47m16.854775807s", "2562047h47m16.854775808s", "-2562047h47m16.854775808s", "-2562047h47m16.854775809s",
			"9223372036s", "9223372037s", "9223372036854775807ns", "9223372036854775808ns", "-9223372036854775808ns", "2562048h", "153722867m", "153722868m",
			"99999999999999999999s", "0.9223372036854775807s", "1h9223372036s", "0", "-0", "+0", "0s", "00", "0.0s", "16777216.999999999s", "8388608.5s", "-16777217.999999999s", "4660h20m16.999999999s"})
		in.Class = "limits"
	default: // malformed
		in.Arg = Pick(r, []string{"", "5", "s", "1x", "1.2.3s", "--1s", "1e3s", " 1s", "1s ", "1 s", ".s", "-.s", "+", "-", "1hh", "1H", "1S", "h1", "1.5", "1..5s", "1s5", "3m-2s", "µs", "1µ", "1d", "1w", "١s"})
		in.Class = "malformed"
	}
	return in
}

func minInt(a, b int) int {
	if a < b {
		return a
	}
	return b
}
func pow10(n int) int {
	p := 1
	for i := 0; i < n; i++ {
		p *= 10
	}
	return p
}

// small exhaustive scope: every month boundary of a few years (last second / first second, UTC) x quarter, yearweek;
// every day around the turn of every year 1970..2100 x yearweek (quick: every 7th year)
func c18Exhaustive(tier string) []Case {
	var cases []Case
	years := []int{1970, 1999, 2000, 2019, 2020, 2024, 2100}
	step := 9
	if tier == "thorough" {
		years = nil
		for y := 1970; y <= 2100; y++ {
			years = append(years, y)
		}
		step = 1
	}
	for _, y := range years {
		for m := 1; m <= 12; m++ {
			t := time.Date(y, time.Month(m), 1, 0, 0, 0, 0, time.UTC).Unix()
			for _, d := range []int64{-1, 0} {
				cases = append(cases, c18Case(c18In{Kind: "attr", Arg: strconv.FormatInt(t+d, 10), Sub: "quarter", Class: "exhaustive-month-boundary"}))
			}
		}
	}
	for y := 1970; y <= 2100; y += step {
		for d := -4; d <= 4; d++ {
			t := time.Date(y, 1, 1, 12, 0, 0, 0, time.UTC).AddDate(0, 0, d).Unix()
			cases = append(cases, c18Case(c18In{Kind: "attr", Arg: strconv.FormatInt(t, 10), Sub: "yearweek", Class: "exhaustive-year-turn"}))
		}
	}
	for _, b := range bucketNames {
		cases = append(cases, c18Case(c18In{Kind: "bucket", Arg: "2020-02-29T23:59:59.987654321+05:30", Sub: b, Fmt: "RFC3339N", Class: "exhaustive-bucket-names"}))
	}
	for _, f := range append(append([]string{}, fullFormats...), partFormats...) {
		for _, z := range zones {
			cases = append(cases, c18Case(c18In{Kind: "format", Arg: "1583020800", Fmt: f, Tz: z.name, Class: "exhaustive-formats-x-zones"}))
		}
	}
	return cases
}

// ---- sequences: one compiled expression walking second by second through a breakpoint ----
func seqInstants(t int64, span int, desc bool) []int64 {
	var ts []int64
	for d := -span; d <= span; d++ {
		ts = append(ts, t+int64(d))
	}
	if desc {
		for i, j := 0, len(ts)-1; i < j; i, j = i+1, j-1 {
			ts[i], ts[j] = ts[j], ts[i]
		}
	}
	return ts
}

// what: 0 timeformat, 1 timeattr, 2 buckettime, 3 time
func seqCase(what int, t int64, z *zoneInfo, f, sub, class string, span int, desc bool) Case {
	in := c18In{Tz: z.name, Class: class, Dir: "ascending"}
	if desc {
		in.Dir = "descending"
	}
	ts := seqInstants(t, span, desc)
	switch what {
	case 0:
		in.Kind, in.Fmt = "format", f
		for _, u := range ts {
			in.Seq = append(in.Seq, strconv.FormatInt(u, 10))
		}
	case 1:
		in.Kind, in.Sub = "attr", sub
		for _, u := range ts {
			in.Seq = append(in.Seq, strconv.FormatInt(u, 10))
		}
	default:
		in.Kind, in.Fmt, in.Sub = "bucket", f, sub
		if what == 3 {
			in.Kind, in.Sub = "time", ""
		}
		for _, u := range ts {
			in.Seq = append(in.Seq, time.Unix(u, 0).In(z.loc).Format(layoutOf(f)))
		}
	}
	in.Arg = in.Seq[0]
	return c18Case(in)
}

var seqFormats = []string{"RFC3339", "RFC1123", "RFC1123Z", "UNIX", "NGINX", "RFC822", "TIMEZONE", "NTZ", "HOUR", "ANSIC"}
var seqParseFormats = []string{"ANSIC", "RFC3339", "RFC1123", "UNIX", "RFC1123Z", "NGINX"}
var seqAttrs = []string{"yearweek", "week", "weekday", "quarter"}
var seqBuckets = []string{"hours", "days", "months", "years", "minutes", "seconds"}

func genSeq(r *Rng) Case {
	buildBreakpoints()
	b := Pick(r, breakpoints)
	z := Pick(r, zones)
	t := b.t
	if strings.HasPrefix(b.class, "dst-change:") {
		z = zoneByName[strings.TrimPrefix(b.class, "dst-change:")]
		b.class = "dst-change"
	} else if r.Chance(2, 3) {
		_, off := offsetAt(z.loc, t)
		t -= off // the boundary in local time
	}
	span := 3
	if r.Chance(1, 5) {
		span = r.Range(1, 8)
	}
	what := r.Intn(4)
	f := Pick(r, seqFormats)
	if what >= 2 {
		f = Pick(r, seqParseFormats)
	}
	sub := Pick(r, seqAttrs)
	if what == 2 {
		sub = Pick(r, seqBuckets)
	}
	return seqCase(what, t, z, f, sub, b.class, span, r.Bool())
}

// every DST change of 2020/2021 (and the first and last one in range) of every zone x the three expressions x both directions
func c18SeqExhaustive(tier string) []Case {
	var cases []Case
	lo := time.Date(2020, 1, 1, 0, 0, 0, 0, time.UTC).Unix()
	hi := time.Date(2022, 1, 1, 0, 0, 0, 0, time.UTC).Unix()
	for _, z := range zones {
		for i, tr := range z.trans {
			if !(tier == "thorough" || i == 0 || i == len(z.trans)-1 || (tr >= lo && tr < hi)) {
				continue
			}
			for _, desc := range []bool{false, true} {
				cases = append(cases, seqCase(0, tr, z, "RFC3339", "", "dst-change", 3, desc))
				cases = append(cases, seqCase(1, tr, z, "", "weekday", "dst-change", 3, desc))
				cases = append(cases, seqCase(2, tr, z, "RFC3339", "hours", "dst-change", 3, desc))
			}
		}
	}
	// calendar breakpoints in local time: new year 2021 (ISO week 53 -> 53 -> 1), a quarter start, a month start
	for _, z := range zones {
		for _, d := range []time.Time{time.Date(2021, 1, 1, 0, 0, 0, 0, z.loc), time.Date(2021, 1, 4, 0, 0, 0, 0, z.loc),
			time.Date(2020, 4, 1, 0, 0, 0, 0, z.loc), time.Date(2020, 3, 1, 0, 0, 0, 0, z.loc)} {
			for _, desc := range []bool{false, true} {
				cases = append(cases, seqCase(1, d.Unix(), z, "", "yearweek", "calendar-start", 3, desc))
				cases = append(cases, seqCase(2, d.Unix(), z, "ANSIC", "months", "calendar-start", 3, desc))
			}
		}
	}
	return cases
}

// ---- values for any of the ten expression forms ----
var allForms = []string{"format", "attr", "time", "bucket", "duration", "durationformat", "roundtrip", "reformat", "durroundtrip", "durreformat"}

// a value of {0} suited to the form (an instant, a printed time, a duration, seconds)
func formValue(r *Rng, in c18In, z *zoneInfo) string {
	switch in.Kind {
	case "format", "attr", "roundtrip":
		t, _, _ := genInstant(r)
		return strconv.FormatInt(t, 10)
	case "time", "bucket", "reformat":
		t, _, _ := genInstant(r)
		return time.Unix(t, 0).In(z.loc).Format(layoutOf(in.Fmt))
	case "duration", "durreformat":
		return genDuration(r).Arg
	default:
		return strconv.FormatInt(genDurSecs(r), 10)
	}
}

func formBad(r *Rng, in c18In) string {
	switch in.Kind {
	case "format", "attr", "roundtrip", "durationformat", "durroundtrip":
		return Pick(r, []string{"abc", "1.5", "9223372036854775808", "12x", " 7"})
	case "duration", "durreformat":
		return Pick(r, []string{"5", "1x", "--1s", "1..5s", "s"})
	}
	return Pick(r, []string{"garbage", "2020-13-45T99:99:99Z", "Mon", "31/Feb/2020:00:00:00 +0000", "x"})
}

func formSetup(r *Rng, kind string) (c18In, *zoneInfo) {
	loadZones()
	z := Pick(r, zones)
	in := c18In{Kind: kind, Tz: z.name}
	switch kind {
	case "format":
		in.Fmt = Pick(r, fullFormats)
	case "attr":
		in.Sub = Pick(r, seqAttrs)
	case "time":
		in.Fmt = Pick(r, seqParseFormats)
	case "bucket":
		in.Fmt, in.Sub = Pick(r, seqParseFormats), Pick(r, seqBuckets)
	case "roundtrip":
		in.Fmt = Pick(r, []string{"RFC3339", "RFC1123Z", "RUBY", "NGINX", "RFC3339N", "RFC822Z", "ANSIC", "RFC1123"})
	case "reformat":
		in.Fmt, in.Sub = Pick(r, seqParseFormats), Pick(r, fullFormats)
	}
	return in, z
}

// one compiled expression over: the empty context first, then values with repeats and an unparseable one;
// every step must be the value of its own context alone
func genMixedSeq(r *Rng, kind string) Case {
	in, z := formSetup(r, kind)
	in.Class, in.Dir = "mixed-sequence", "mixed"
	vals := []string{}
	for i := 0; i < r.Range(3, 6); i++ {
		vals = append(vals, formValue(r, in, z))
	}
	seq := []string{""}
	seq = append(seq, vals[0], vals[1], vals[0], formBad(r, in), vals[1])
	seq = append(seq, vals[2:]...)
	seq = append(seq, "", vals[0], vals[len(vals)-1], vals[0])
	in.Seq, in.Arg = seq, seq[0]
	return c18Case(in)
}

// one compiled expression shared by 4..8 goroutines, each looping over its own 10 values, >= 3000 evaluations each
func concCase(r *Rng, in c18In, z *zoneInfo, goroutines int) Case {
	in.Class, in.Conc = "concurrent", goroutines
	per := 10
	seen := map[string]bool{}
	for len(in.Seq) < goroutines*per {
		v := formValue(r, in, z)
		if v == "" || (seen[v] && len(seen) < 1000) {
			seen[v+"#"] = true // avoid spinning on tiny value spaces
			if len(seen) < 1000 {
				continue
			}
		}
		seen[v] = true
		in.Seq = append(in.Seq, v)
	}
	in.Reps = 300
	in.Arg = in.Seq[0]
	return c18Case(in)
}

func genConc(r *Rng, kind string) Case {
	in, z := formSetup(r, kind)
	return concCase(r, in, z, r.Range(4, 8))
}

// every run: each of the ten forms concurrently (timeformat and the round trip several times), each form as a mixed sequence
func c18SharedExhaustive(r *Rng) []Case {
	loadZones()
	var cases []Case
	zn := func(name string) *zoneInfo {
		if z, ok := zoneByName[name]; ok {
			return z
		}
		return zoneByName[""]
	}
	fixed := []struct{ kind, f, sub, tz string }{
		{"format", "RFC1123Z", "", "America/New_York"}, {"format", "RFC3339", "", "Europe/Berlin"}, {"format", "ANSIC", "", ""},
		{"format", "NGINX", "", "Australia/Lord_Howe"}, {"format", "UNIX", "", "America/New_York"}, {"format", "RFC3339N", "", "Asia/Kolkata"},
		{"format", "MONTHNAME", "", "Europe/Berlin"},
		{"roundtrip", "RFC1123Z", "", "America/New_York"}, {"roundtrip", "RFC3339", "", "Europe/Berlin"}, {"roundtrip", "NGINX", "", ""},
		{"time", "RFC1123Z", "", "America/New_York"}, {"time", "ANSIC", "", "Europe/Berlin"},
		{"attr", "", "yearweek", "America/New_York"}, {"attr", "", "quarter", "Europe/Berlin"},
		{"bucket", "RFC3339", "hours", "America/New_York"}, {"bucket", "ANSIC", "months", "Europe/Berlin"},
		{"reformat", "RFC3339", "RFC1123Z", "America/New_York"},
		{"duration", "", "", ""}, {"durationformat", "", "", ""}, {"durroundtrip", "", "", ""}, {"durreformat", "", "", ""},
	}
	for i, f := range fixed {
		z := zn(f.tz)
		cases = append(cases, concCase(r, c18In{Kind: f.kind, Fmt: f.f, Sub: f.sub, Tz: z.name}, z, 4+i%5))
	}
	for _, k := range allForms {
		cases = append(cases, genMixedSeq(r, k), genMixedSeq(r, k))
	}
	return cases
}

// ---------------------------------------------------------------- text-level malformed / edge stream
// The texts are built from FIELDS, not from instants, so they can name days the calendar does not have,
// out-of-range clock fields, wall-clock times inside DST gaps and overlaps, wrong names, short and long fields.
type textFields struct {
	Y, M, D, h, mi, s string // digits as written
	mon, wd           int    // month 1..12 for the names (0 = write "Foo"), weekday 0..6 (-1 = write "Xyz")
	off               int    // numeric offset, seconds
	abbr              string
	lowerNames        bool
}

var monthNames = []string{"January", "February", "March", "April", "May", "June", "July", "August", "September", "October", "November", "December"}
var dayNames = []string{"Sunday", "Monday", "Tuesday", "Wednesday", "Thursday", "Friday", "Saturday"}
var layoutTokens = []string{"2006", "January", "Monday", "Jan", "Mon", "MST", "Z07:00", "-0700", ".999999999", "01", "02", "_2", "15", "04", "05", "06"}

func (f textFields) render(layout string) string {
	var sb strings.Builder
	name := func(s string, short bool) string {
		if short && len(s) > 3 {
			s = s[:3]
		}
		if f.lowerNames {
			s = strings.ToLower(s)
		}
		return s
	}
	for i := 0; i < len(layout); {
		tok := ""
		for _, t := range layoutTokens {
			if strings.HasPrefix(layout[i:], t) {
				tok = t
				break
			}
		}
		switch tok {
		case "":
			sb.WriteByte(layout[i])
			i++
			continue
		case "2006":
			sb.WriteString(f.Y)
		case "06":
			if len(f.Y) >= 2 {
				sb.WriteString(f.Y[len(f.Y)-2:])
			} else {
				sb.WriteString(f.Y)
			}
		case "01":
			sb.WriteString(f.M)
		case "02":
			sb.WriteString(f.D)
		case "_2":
			if len(f.D) == 2 && f.D[0] == '0' {
				sb.WriteString(" " + f.D[1:])
			} else {
				sb.WriteString(f.D)
			}
		case "15":
			sb.WriteString(f.h)
		case "04":
			sb.WriteString(f.mi)
		case "05":
			sb.WriteString(f.s)
		case "Jan", "January":
			if f.mon >= 1 && f.mon <= 12 {
				sb.WriteString(name(monthNames[f.mon-1], tok == "Jan"))
			} else {
				sb.WriteString("Foo")
			}
		case "Mon", "Monday":
			if f.wd >= 0 && f.wd <= 6 {
				sb.WriteString(name(dayNames[f.wd], tok == "Mon"))
			} else {
				sb.WriteString("Xyz")
			}
		case "MST":
			sb.WriteString(f.abbr)
		case "-0700", "Z07:00":
			o, sg := f.off, "+"
			if o < 0 {
				o, sg = -o, "-"
			}
			if tok == "Z07:00" {
				if f.off == 0 {
					sb.WriteString("Z")
				} else {
					fmt.Fprintf(&sb, "%s%02d:%02d", sg, o/3600, o/60%60)
				}
			} else {
				fmt.Fprintf(&sb, "%s%02d%02d", sg, o/3600, o/60%60)
			}
		case ".999999999":
		}
		i += len(tok)
	}
	return sb.String()
}

type textEdge struct {
	name           string
	y, m, d        int
	h, mi, s       int
	alter          func(f *textFields) // after the numeric fields were written
	needsWeekday   bool                // only meaningful for layouts carrying a weekday name
	needsMonthName bool
	numericMonth   bool // only meaningful for layouts with a numeric month
	fullWidth      bool // keeps the shape dddd-dd-dd dd:dd:dd (usable with auto-detection)
}

func textEdges() []textEdge {
	e := []textEdge{}
	add := func(name string, y, m, d, h, mi, s int) {
		e = append(e, textEdge{name: name, y: y, m: m, d: d, h: h, mi: mi, s: s, fullWidth: true})
	}
	// days the calendar does not have (and their valid neighbours)
	add("feb29-non-leap-2021", 2021, 2, 29, 10, 0, 0)
	add("feb29-non-leap-2023", 2023, 2, 29, 0, 0, 0)
	add("feb29-1900", 1900, 2, 29, 12, 0, 0)
	add("feb29-2100", 2100, 2, 29, 0, 0, 0)
	add("feb30-leap-2020", 2020, 2, 30, 10, 0, 0)
	add("feb30-2021", 2021, 2, 30, 10, 0, 0)
	add("feb31", 2024, 2, 31, 23, 59, 59)
	add("apr31", 2021, 4, 31, 12, 30, 0)
	add("jun31", 2022, 6, 31, 0, 0, 1)
	add("sep31", 2019, 9, 31, 6, 7, 8)
	add("nov31", 2021, 11, 31, 12, 0, 0)
	add("valid-feb29-2020", 2020, 2, 29, 23, 59, 59)
	add("valid-feb29-2000", 2000, 2, 29, 0, 0, 0)
	add("valid-feb28-2100", 2100, 2, 28, 23, 59, 59)
	add("valid-dec31", 2021, 12, 31, 23, 59, 59)
	add("valid-apr30", 2021, 4, 30, 12, 30, 0)
	// field ranges
	add("day00", 2021, 3, 0, 10, 0, 0)
	add("day32", 2021, 3, 32, 10, 0, 0)
	add("hour24", 2021, 3, 14, 24, 0, 0)
	add("minute60", 2021, 3, 14, 12, 60, 0)
	add("second60", 2021, 3, 14, 12, 30, 60)
	add("second61", 2016, 12, 31, 23, 59, 61)
	e = append(e, textEdge{name: "month00", y: 2021, m: 0, d: 14, h: 12, mi: 30, numericMonth: true, fullWidth: true},
		textEdge{name: "month13", y: 2021, m: 13, d: 14, h: 12, mi: 30, numericMonth: true, fullWidth: true})
	// names
	e = append(e,
		textEdge{name: "wrong-weekday-name", y: 2021, m: 3, d: 14, h: 12, mi: 30, needsWeekday: true, alter: func(f *textFields) { f.wd = (f.wd + 3) % 7 }},
		textEdge{name: "bad-weekday-name", y: 2021, m: 3, d: 14, h: 12, mi: 30, needsWeekday: true, alter: func(f *textFields) { f.wd = -1 }},
		textEdge{name: "bad-month-name", y: 2021, m: 3, d: 14, h: 12, mi: 30, needsMonthName: true, alter: func(f *textFields) { f.mon = 0 }},
		textEdge{name: "lower-case-names", y: 2021, m: 3, d: 14, h: 12, mi: 30, alter: func(f *textFields) { f.lowerNames = true }},
		textEdge{name: "month-name-of-another-month-with-day31", y: 2021, m: 5, d: 31, h: 1, mi: 2, s: 3, needsMonthName: true, alter: func(f *textFields) { f.mon = 6 }})
	// truncated and over-long fields
	e = append(e,
		textEdge{name: "short-month", y: 2021, m: 3, d: 14, h: 12, mi: 30, numericMonth: true, alter: func(f *textFields) { f.M = "3" }},
		textEdge{name: "short-day", y: 2021, m: 3, d: 7, h: 12, mi: 30, alter: func(f *textFields) { f.D = "7" }},
		textEdge{name: "short-hour", y: 2021, m: 3, d: 14, h: 9, mi: 30, alter: func(f *textFields) { f.h = "9" }},
		textEdge{name: "short-minute", y: 2021, m: 3, d: 14, h: 12, mi: 5, alter: func(f *textFields) { f.mi = "5" }},
		textEdge{name: "short-second", y: 2021, m: 3, d: 14, h: 12, mi: 30, s: 5, alter: func(f *textFields) { f.s = "5" }},
		textEdge{name: "short-year", y: 2021, m: 3, d: 14, h: 12, mi: 30, alter: func(f *textFields) { f.Y = "202" }},
		textEdge{name: "long-year", y: 2021, m: 3, d: 14, h: 12, mi: 30, alter: func(f *textFields) { f.Y = "02021" }},
		textEdge{name: "long-day", y: 2021, m: 3, d: 14, h: 12, mi: 30, alter: func(f *textFields) { f.D = "014" }},
		textEdge{name: "long-hour", y: 2021, m: 3, d: 14, h: 10, mi: 30, alter: func(f *textFields) { f.h = "010" }},
		textEdge{name: "long-second", y: 2021, m: 3, d: 14, h: 12, mi: 30, alter: func(f *textFields) { f.s = "000" }},
		textEdge{name: "signed-day", y: 2021, m: 3, d: 14, h: 12, mi: 30, alter: func(f *textFields) { f.D = "+4" }})
	return e
}

// wall-clock times inside the DST gaps and overlaps of 2021 and 2016 of a zone
func dstWallEdges(z *zoneInfo) []textEdge {
	var e []textEdge
	for _, tr := range z.trans {
		y := time.Unix(tr, 0).UTC().Year()
		if y != 2021 && y != 2016 {
			continue
		}
		_, before := offsetAt(z.loc, tr-1)
		_, after := offsetAt(z.loc, tr)
		kind, lo, hi := "dst-gap", tr+before, tr+after // wall clocks in [lo, hi) do not exist
		if after < before {
			kind, lo, hi = "dst-overlap", tr+after, tr+before // wall clocks in [lo, hi) occur twice
		}
		for _, w := range []int64{lo, (lo + hi) / 2, hi - 1, lo - 1, hi} {
			t := time.Unix(w, 0).UTC()
			e = append(e, textEdge{name: kind, y: t.Year(), m: int(t.Month()), d: t.Day(), h: t.Hour(), mi: t.Minute(), s: t.Second(), fullWidth: true})
		}
	}
	return e
}

func (ed textEdge) fields(z *zoneInfo) textFields {
	f := textFields{Y: fmt.Sprintf("%04d", ed.y), M: fmt.Sprintf("%02d", ed.m), D: fmt.Sprintf("%02d", ed.d),
		h: fmt.Sprintf("%02d", ed.h), mi: fmt.Sprintf("%02d", ed.mi), s: fmt.Sprintf("%02d", ed.s), mon: ed.m, abbr: "UTC"}
	// the weekday the (possibly normalised) date would have; the zone's offset / abbreviation around that time
	t := time.Date(ed.y, time.Month(ed.m), ed.d, ed.h, ed.mi, ed.s, 0, z.loc)
	f.wd = int(time.Date(ed.y, time.Month(ed.m), ed.d, 12, 0, 0, 0, time.UTC).Weekday())
	n, o := t.Zone()
	f.off, f.abbr = o-o%60, n
	if ed.alter != nil {
		ed.alter(&f)
	}
	return f
}

// every layout the model covers: the named formats carrying a date, the bucket layouts and two ISO shapes (raw layouts)
var textLayouts = []string{"ANSIC", "UNIX", "RUBY", "RFC822", "RFC822Z", "RFC1123", "RFC1123Z", "RFC3339", "RFC3339N", "NGINX",
	"2006-01-02 15:04:05", "2006-01-02T15:04:05", "2006-01-02T15:04:05-07:00", "2006-01-02 15:04", "2006-01-02 15", "2006-01-02", "2006-01"}

func edgeApplies(ed textEdge, layout string) bool {
	if ed.needsWeekday && !strings.Contains(layout, "Mon") {
		return false
	}
	if ed.needsMonthName && !strings.Contains(layout, "Jan") {
		return false
	}
	if ed.numericMonth && !strings.Contains(layout, "01") {
		return false
	}
	return true
}

var textAttrs = []string{"weekday", "yearweek", "quarter", "week"}

// k selects the expression: time / buckettime / timeattr(time); detect != "" makes the implementation auto-detect
// the layout (only offered for the full-width ISO shapes), the model is given the layout itself
func textCase(ed textEdge, f string, z *zoneInfo, k int, detect string) Case {
	in := c18In{Arg: ed.fields(z).render(layoutOf(f)), Fmt: f, Tz: z.name, Class: "text:" + ed.name, Detect: detect}
	switch k % 3 {
	case 0:
		in.Kind = "time"
	case 1:
		in.Kind, in.Sub = "bucket", seqBuckets[k/3%len(seqBuckets)]
	default:
		in.Kind, in.Sub = "attrtime", textAttrs[k/3%len(textAttrs)]
	}
	if detect != "" && in.Kind == "attrtime" {
		in.Kind, in.Sub = "bucket", "days"
	}
	c := c18Case(in)
	c.Nontrivial = true
	return c
}

func isoShape(f string) bool {
	return f == "2006-01-02 15:04:05" || f == "2006-01-02T15:04:05" || f == "2006-01-02T15:04:05-07:00"
}

// every layout x every edge that applies, the expression / zone / bucket rotating; the DST walls per DST zone x the
// zone-less layouts; the ISO shapes also through auto-detection ("" = cache, "auto", and the format argument left out)
func c18TextExhaustive() []Case {
	loadZones()
	var cases []Case
	k := 0
	edges := textEdges()
	for _, f := range textLayouts {
		for _, ed := range edges {
			if !edgeApplies(ed, layoutOf(f)) {
				continue
			}
			cases = append(cases, textCase(ed, f, zones[k%len(zones)], k, ""))
			if isoShape(f) && ed.fullWidth {
				cases = append(cases, textCase(ed, f, zones[(k+5)%len(zones)], k+1, []string{"empty", "auto", "cache"}[k%3]))
				if k%4 == 0 {
					cases = append(cases, textCase(ed, f, zoneByName[""], k+1, "omit"))
				}
			}
			k++
		}
	}
	for _, z := range zones {
		for _, ed := range dstWallEdges(z) {
			for _, f := range []string{"ANSIC", "2006-01-02 15:04:05", "2006-01-02T15:04:05", "2006-01-02 15:04"} {
				cases = append(cases, textCase(ed, f, z, k, ""))
				if isoShape(f) && k%2 == 0 {
					cases = append(cases, textCase(ed, f, z, k+1, []string{"empty", "auto"}[k/2%2]))
				}
				k++
			}
		}
	}
	return cases
}

func genTextCase(r *Rng) Case {
	loadZones()
	z := Pick(r, zones)
	edges := textEdges()
	if len(z.trans) > 0 && r.Chance(1, 3) {
		if w := dstWallEdges(z); len(w) > 0 {
			edges = w
		}
	}
	for {
		ed, f := Pick(r, edges), Pick(r, textLayouts)
		if !edgeApplies(ed, layoutOf(f)) {
			continue
		}
		// any year / any month for the calendar edges
		if strings.HasPrefix(ed.name, "feb29-non-leap") {
			ed.y = 1970 + r.Intn(131)
			if ed.y%4 == 0 {
				ed.y++
			}
		}
		detect := ""
		if isoShape(f) && ed.fullWidth && r.Chance(1, 3) {
			detect = Pick(r, []string{"empty", "auto", "cache"})
		}
		return textCase(ed, f, z, r.Intn(36), detect)
	}
}

// ---------------------------------------------------------------- evaluation under a non-UTC HOST zone
// The results must not depend on the zone of the machine (only tz=local may). Go reads TZ when the process starts,
// so the harness re-executes itself as a child with TZ set and lets the child run the implementation; the expected
// values are the same model values as under UTC.
var inHostChild bool
var hostCache = map[string][]string{}

type hostResp struct {
	Local string     `json:"local"`
	Off0  int        `json:"offset_at_epoch"`
	Outs  [][]string `json:"outs"`
}

func hostChildMain() {
	inHostChild = true
	var ins []c18In
	if err := json.NewDecoder(os.Stdin).Decode(&ins); err != nil {
		fmt.Fprintln(os.Stderr, err)
		os.Exit(2)
	}
	_, off := time.Unix(0, 0).Zone()
	resp := hostResp{Local: time.Local.String(), Off0: off}
	for _, in := range ins {
		args := in.Seq
		if len(args) == 0 {
			args = []string{in.Arg}
		}
		resp.Outs = append(resp.Outs, c18ImplSeq(in, args))
	}
	json.NewEncoder(os.Stdout).Encode(resp)
}

// runs the implementation on the inputs in a child process whose local zone is `zone`
func runHost(zone string, ins []c18In) (*hostResp, error) {
	exe, err := os.Executable()
	if err != nil {
		return nil, err
	}
	cmd := exec.Command(exe, "c18-host-child")
	for _, e := range os.Environ() {
		if !strings.HasPrefix(e, "TZ=") {
			cmd.Env = append(cmd.Env, e)
		}
	}
	cmd.Env = append(cmd.Env, "TZ="+zone)
	b, _ := json.Marshal(ins)
	cmd.Stdin = strings.NewReader(string(b))
	cmd.Stderr = os.Stderr
	out, err := cmd.Output()
	if err != nil {
		return nil, err
	}
	var resp hostResp
	if err := json.Unmarshal(out, &resp); err != nil {
		return nil, err
	}
	if resp.Local != zone {
		return nil, fmt.Errorf("child process runs in local zone %q, wanted %q", resp.Local, zone)
	}
	return &resp, nil
}

func hostKey(in c18In) string {
	b, _ := json.Marshal(in)
	return string(b)
}

// fills the cache for a batch (one child process per zone)
func hostPrefetch(ins []c18In) {
	byZone := map[string][]c18In{}
	var order []string
	for _, in := range ins {
		if _, ok := byZone[in.HostTz]; !ok {
			order = append(order, in.HostTz)
		}
		byZone[in.HostTz] = append(byZone[in.HostTz], in)
	}
	for _, zone := range order {
		resp, err := runHost(zone, byZone[zone])
		for i, in := range byZone[zone] {
			if err != nil {
				n := len(in.Seq)
				if n == 0 {
					n = 1
				}
				outs := make([]string, n)
				for j := range outs {
					outs[j] = "<<HOST-ZONE-CHILD-FAILED>> " + err.Error()
				}
				hostCache[hostKey(in)] = outs
			} else {
				hostCache[hostKey(in)] = resp.Outs[i]
			}
		}
	}
}

func hostOuts(in c18In, args []string) []string {
	if outs, ok := hostCache[hostKey(in)]; ok && len(outs) == len(args) {
		return outs
	}
	hostPrefetch([]c18In{in})
	return hostCache[hostKey(in)]
}

var hostZones = []string{"America/New_York", "Asia/Kolkata", "Pacific/Chatham"}

// the fixed slice evaluated under every host zone: tz omitted / utc / UTC / explicit zones x timeformat, timeattr, time,
// buckettime and the nested forms, zone-less layouts included
func c18HostInputs(r *Rng, tier string) []c18In {
	loadZones()
	buildBreakpoints()
	var ins []c18In
	instants := []int64{0, -1, 1583020800, 1609459199, 1609459200, 1615705200, 1636264800, 1617235200, 946684800, 4102444799}
	tzs := []struct {
		tz   string
		omit bool
	}{{"", true}, {"", false}, {"utc", false}, {"UTC", false}, {"America/New_York", false}, {"Europe/Berlin", false}, {"Asia/Kolkata", false}, {"Pacific/Chatham", false}}
	k := 0
	for _, hz := range hostZones {
		add := func(in c18In) {
			in.HostTz = hz
			if in.Class == "" {
				in.Class = "host-zone"
			}
			ins = append(ins, in)
		}
		for _, tz := range tzs {
			if zoneOf(tz.tz) == nil {
				continue
			}
			for _, f := range []string{"RFC3339", "ANSIC", "UNIX", "RFC1123", "RFC822Z", "TIMEZONE", "NTZ", "HOUR", "WEEKDAY", "2006-01-02 15:04:05"} {
				for j := 0; j < 2; j++ {
					t := instants[(k+j*3)%len(instants)]
					add(c18In{Kind: "format", Arg: strconv.FormatInt(t, 10), Fmt: f, Tz: tz.tz, OmitTz: tz.omit})
				}
				k++
			}
			for _, a := range []string{"weekday", "week", "yearweek", "quarter"} {
				for j := 0; j < 2; j++ {
					t := instants[(k+j*2)%len(instants)]
					add(c18In{Kind: "attr", Arg: strconv.FormatInt(t, 10), Sub: a, Tz: tz.tz, OmitTz: tz.omit})
				}
				k++
			}
			z := zoneOf(tz.tz)
			for _, f := range []string{"ANSIC", "2006-01-02 15:04:05", "RFC3339", "RFC1123", "UNIX", "RFC1123Z"} {
				for j := 0; j < 1; j++ {
					t := instants[(k+j*5)%len(instants)]
					if t < 0 {
						t = 86400
					}
					str := time.Unix(t, 0).In(z.loc).Format(layoutOf(f))
					add(c18In{Kind: "time", Arg: str, Fmt: f, Tz: tz.tz, OmitTz: tz.omit})
					add(c18In{Kind: "bucket", Arg: str, Fmt: f, Sub: seqBuckets[k%len(seqBuckets)], Tz: tz.tz, OmitTz: tz.omit})
					add(c18In{Kind: "roundtrip", Arg: strconv.FormatInt(t, 10), Fmt: f, Tz: tz.tz, OmitTz: tz.omit})
					add(c18In{Kind: "attrtime", Arg: str, Fmt: f, Sub: textAttrs[k%len(textAttrs)], Tz: tz.tz, OmitTz: tz.omit})
					add(c18In{Kind: "reformat", Arg: str, Fmt: f, Sub: "ANSIC", Tz: tz.tz, OmitTz: tz.omit})
				}
				k++
			}
		}
		// one compiled expression over a walk through midnight UTC / local and a DST change, tz omitted and utc
		for _, t := range []int64{1609459200, 1615705200, 1609459200 + 18000, 1609459200 - 19800} {
			for _, omit := range []bool{true, false} {
				var seq []string
				for _, u := range seqInstants(t, 3, false) {
					seq = append(seq, strconv.FormatInt(u, 10))
				}
				add(c18In{Kind: "format", Fmt: "ANSIC", OmitTz: omit, Seq: seq, Arg: seq[0], Dir: "ascending"})
				add(c18In{Kind: "attr", Sub: "yearweek", OmitTz: omit, Seq: seq, Arg: seq[0], Dir: "ascending"})
			}
		}
		// a seeded random slice of the ordinary cases
		m := 60
		if tier == "thorough" {
			m = 1500
		}
		for i := 0; i < m; i++ {
			var in c18In
			switch r.Intn(4) {
			case 0:
				in = genFormat(r)
			case 1:
				in = genAttr(r)
			case 2:
				in = genTime(r)
			default:
				in = genBucket(r)
			}
			if in.OneArg {
				in.Tz = ""
			}
			if r.Chance(1, 3) && !in.OneArg {
				in.Tz, in.OmitTz = "", r.Bool()
				if in.Kind == "time" || in.Kind == "bucket" {
					// the text was printed for another zone: keep the numeric-offset and zone-less ones meaningful
					in.Class = "host-zone:text-of-another-zone"
				}
			}
			add(in)
		}
	}
	return ins
}

func c18HostCases(r *Rng, tier string) []Case {
	ins := c18HostInputs(r, tier)
	// settle the inputs first (c18Case may move a case to utc), then one child per zone, then the cases
	for i := range ins {
		ins[i] = settle(ins[i])
	}
	hostPrefetch(ins)
	cases := make([]Case, len(ins))
	for i, in := range ins {
		cases[i] = c18Case(in)
	}
	return cases
}

func c18Gen(r *Rng, n int, tier string) []Case {
	loadZones()
	cases := c18Exhaustive(tier)
	cases = append(cases, c18SeqExhaustive(tier)...)
	cases = append(cases, c18SharedExhaustive(r.Fork())...)
	cases = append(cases, c18OffsetExhaustive()...)
	cases = append(cases, c18TextExhaustive()...)
	cases = append(cases, c18HostCases(r.Fork(), tier)...)
	base := len(cases)
	for len(cases) < base+n {
		var in c18In
		switch x := r.Intn(200); {
		case x < 12:
			cases = append(cases, genSeq(r))
			continue
		case x < 20:
			cases = append(cases, genMixedSeq(r, Pick(r, allForms)))
			continue
		case x == 20:
			cases = append(cases, genConc(r, Pick(r, allForms)))
			continue
		case x < 33:
			cases = append(cases, genOffsetCase(r))
			continue
		case x < 45:
			cases = append(cases, genTextCase(r))
			continue
		}
		switch x := r.Intn(100); {
		case x < 36:
			in = genFormat(r)
		case x < 52:
			in = genAttr(r)
		case x < 74:
			in = genTime(r)
		case x < 86:
			in = genBucket(r)
		case x < 93:
			in = genDuration(r)
		default:
			in = genDurationFormat(r)
		}
		cases = append(cases, c18Case(in))
	}
	return cases
}

func main() {
	if len(os.Args) > 1 && os.Args[1] == "c18-host-child" {
		hostChildMain()
		return
	}
	Main(&Prop{
		Name:   "C18",
		Header: "From Coq Require Import List NArith ZArith String.\nFrom RareV Require Import Corr.C18Case.\nImport ListNotations.\nOpen Scope N_scope. Open Scope string_scope.\n",
		Rule: "small exhaustive scope (every month boundary of selected years x quarter; the days around every 9th (quick) / every (thorough) new year 1970..2100 x yearweek; every bucket name; every named format x every zone) " +
			"followed by seeded random: instants = breakpoints (UTC and local month / quarter / year starts 1970..2100, ISO week-1 Mondays, Feb/Mar, every DST change of the zones) displaced by 0/±1 s, whole hours within ±48 h, random seconds within ±2 days, whole days within a week; plus extremes (year 0, 9999, 2^31); " +
			"zones: utc, Etc/GMT+5, Etc/GMT-14, Asia/Kolkata, America/New_York, Europe/Berlin, Australia/Lord_Howe, America/St_Johns (-03:30/-02:30), Pacific/Marquesas (-09:30), America/Caracas (-04:30 in 2007..2016), Asia/Kathmandu (+05:45), Pacific/Chatham (+12:45/+13:45) as available on the host; literal timestamps with an explicit numeric offset through time / buckettime / timeformat(time): every offset layout (RFC3339, RFC3339N, RFC1123Z, RFC822Z, RUBY, NGINX) x both signs x minutes {00,15,30,45} x hours {0,3,5,9,12,14} incl. -00:00 every run, and 6% of the random cases with any whole-minute offset within +-24 h; kinds: timeformat (all named formats, mixed case, raw layouts, bad integers), timeattr (4 attributes, bad names), " +
			"time with explicit format (strings printed by Go for the instant in the zone, 1/4 mutated: digit, truncation, trailing text, byte, space, fractional second, case, range), buckettime (all bucket names and abbreviations), duration (printed by durationformat, component strings, limits, malformed), durationformat (boundaries, overflow, bad integers). " +
			"sequences (state inside ONE compiled expression reused across instants): {timeformat {0} F Z}, {timeattr {0} A Z}, {buckettime {0} B F Z}, {time {0} F Z} compiled once and evaluated second by second over t-3..t+3 (sometimes up to +-8) around a breakpoint, ascending and descending — exhaustively for every 2020/2021 (+ first/last) DST change of every zone and local new-year / quarter / month starts, and 8% of the random cases; every output of the sequence is compared with the model; a sequence is one case. " +
			"the value of a compiled expression on a context must depend on that context alone: (a) mixed sequences — each of the ten forms (timeformat, timeattr, time, buckettime, duration, durationformat, {time {timeformat ..}}, {timeformat {time ..}}, {duration {durationformat ..}}, {durationformat {duration ..}}) compiled once and evaluated on the empty context first, then values with repeats, an unparseable value and the empty context again, every step compared with the model value of that context alone; (b) concurrent cases — one compiled expression shared by 4..8 goroutines released by a start barrier, each evaluating its own 10 values 300 times (3000 evaluations per goroutine), every result compared with the value of its context on a freshly compiled expression evaluated alone; the first differing result (if any) is what the model is compared with; every form every run (21 fixed concurrent cases, 20 mixed sequences) plus 4% / 0.5% of the random cases. " +
			"text-level malformed / edge stream (texts built from fields, not from instants) through time, buckettime and {timeattr {time ..}} for every modelled layout (the ten named date formats, the bucket layouts, three ISO shapes as raw layouts): day past the end of the month (Feb 29 in non-leap years incl. 1900/2100, Feb 30/31, Apr/Jun/Sep/Nov 31) with valid neighbours, month 00/13, day 00/32, hour 24, minute/second 60/61, wrong / unknown weekday and month names, lower-case names, short and over-long fields, and the wall-clock times at / inside / around every 2021 and 2016 DST gap and overlap of every DST zone in the zone-less layouts (expected value: the model, with Go's time.Date supplying the offset the zone rules give to a skipped or repeated wall clock — zone transitions are not modelled); the full-width ISO shapes also with the layout auto-detected by the implementation (format \"\", cache, auto, or left out) and the model given the layout (equality only); every layout x edge every run + 6% of the random cases. " +
			"host-zone independence: the harness re-executes itself as a child process with TZ = America/New_York, Asia/Kolkata, Pacific/Chatham (Go reads TZ at start; time/tzdata embedded) and the child runs the implementation on a fixed slice — timeformat / timeattr / time / buckettime / {time {timeformat ..}} / {timeattr {time ..}} / {timeformat {time ..}} with the tz argument omitted, \"\", utc, UTC and explicit zones, zone-less layouts (ANSIC, 2006-01-02 15:04:05) included, walks of one compiled expression through midnight and a DST change, plus 60 (thorough 1500) seeded random ordinary cases per host zone; expected values are the same model values as under UTC; tagged host-tz:<zone>. " +
			"distinct = distinct (kind, argument or sequence, format, attribute/bucket, zone, host zone); non-trivial = the instant lies within 2 days / 1 week of a calendar or DST breakpoint, or the input is mutated / malformed / a limit.",
		Gen: c18Gen,
		Replay: func(d json.RawMessage) (Case, error) {
			var doc struct {
				Input c18In `json:"input"`
			}
			if err := json.Unmarshal(d, &doc); err != nil {
				return Case{}, err
			}
			return c18Case(doc.Input), nil
		},
		Shard: 400,
	})
}
