module verifh

go 1.23

require rare v0.0.0

replace rare => /repo
