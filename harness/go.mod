module verifh

go 1.23

require (
	github.com/araddon/dateparse v0.0.0-20210207001429-0eec95c9db7e
	github.com/urfave/cli/v2 v2.11.2
	rare v0.0.0
)

require (
	github.com/cpuguy83/go-md2man/v2 v2.0.2 // indirect
	github.com/fsnotify/fsnotify v1.4.9 // indirect
	github.com/russross/blackfriday/v2 v2.1.0 // indirect
	github.com/tidwall/gjson v1.14.1 // indirect
	github.com/tidwall/match v1.1.1 // indirect
	github.com/tidwall/pretty v1.2.0 // indirect
	github.com/xrash/smetrics v0.0.0-20201216005158-039620a65673 // indirect
	golang.org/x/sys v0.1.0 // indirect
	golang.org/x/term v0.0.0-20210503060354-a79de5458b56 // indirect
)

replace rare => /repo
