package main

// C01: every input line is read exactly once and classified exactly once (real batchers + extractor).

import (
	"encoding/json"

	. "verifh/lib"
	"verifh/pipe"
)

func main() {
	Main(&Prop{
		Name:   "C01",
		Header: pipe.Header + "Definition mm := mm01.\n",
		Rule: "seeded random pipeline runs of the real batchers.OpenFilesToChan / OpenReaderToChan + extractor.New: 1-6 sources (temp files, one missing now and then, a quarter of the runs with gunzip on and about half of their files gzip-encoded [compress/gzip is an oracle: the model sees the decoded stream]; or one scripted reader with random chunking, injected read errors and 300 ms stalls that force the 250 ms time flush), 0-300 lines each incl. empty lines, CRLF, no trailing newline, one line longer than the 128 KiB read buffer; batch in {1,2,3,7,1000}, workers 1-8, readers 1-4, batch-buffer 1-4; matcher: oracle-checked 'colon' matcher (no match on '!', key before ':', ignore text after ':'); extract/ignore expressions over groups, names and literals. " +
			"distinct = distinct (config, sources, expressions); non-trivial = at least one of: more lines than one batch, partial final batch, missing file, no trailing newline, CRLF, empty line, injected read error, time flush, line longer than the read buffer, several workers racing on several batches.",
		Gen: func(r *Rng, n int, tier string) []Case {
			return pipe.MakeCases(pipe.GenC01(r, n, tier), pipe.Workdir())
		},
		Replay: func(d json.RawMessage) (Case, error) {
			var doc struct {
				Input pipe.PipeIn `json:"input"`
			}
			if err := json.Unmarshal(d, &doc); err != nil {
				return Case{}, err
			}
			return pipe.MakeCase(doc.Input, pipe.Workdir(), 0), nil
		},
		Shard: 8,
	})
}
