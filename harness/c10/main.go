package main

// C10: optimisation and funcs-file functions never change an expression's value.
// Drives the real code through the path main.go takes:
//   cmplr := funclib.NewKeyBuilder(); funclib.TryAddFunctions(funcfile.LoadDefinitions(cmplr, file))
//   funclib.NewKeyBuilderEx(true|false).Compile(template).BuildKey(context)
// Every case: a generated functions file (random layout), a generated template over the modelled
// helpers, the same template with every funcs-file call replaced by its substituted body, a set of
// contexts (always including the all-empty one), evaluated sequentially and from 1-8 goroutines.

import (
	"encoding/hex"
	"encoding/json"
	"fmt"
	"os"
	"os/exec"
	"path/filepath"
	"sort"
	"strings"
	"sync"
	"sync/atomic"
	"time"

	"rare/pkg/expressions"
	"rare/pkg/expressions/funcfile"
	"rare/pkg/expressions/funclib"
	"rare/pkg/logger"
	. "verifh/lib"
)

// ---------------------------------------------------------------- AST
type Node struct {
	Op   string    `json:"op"` // lit | m | k | call
	S    string    `json:"s,omitempty"`
	I    int64     `json:"i,omitempty"`
	Args [][]*Node `json:"args,omitempty"`
}

func lit(s string) *Node                 { return &Node{Op: "lit", S: s} }
func mt(i int64) *Node                   { return &Node{Op: "m", I: i} }
func ky(k string) *Node                  { return &Node{Op: "k", S: k} }
func call(f string, a ...[]*Node) *Node  { return &Node{Op: "call", S: f, Args: a} }
func one(n *Node) []*Node                { return []*Node{n} }
func lits(s string) []*Node              { return []*Node{lit(s)} }

func printNode(n *Node) string {
	switch n.Op {
	case "lit":
		return n.S
	case "m":
		return fmt.Sprintf("{%d}", n.I)
	case "k":
		return "{" + n.S + "}"
	}
	parts := []string{n.S}
	for _, a := range n.Args {
		parts = append(parts, printArg(a))
	}
	return "{" + strings.Join(parts, " ") + "}"
}
func printSeq(t []*Node) string {
	var sb strings.Builder
	for _, n := range t {
		sb.WriteString(printNode(n))
	}
	return sb.String()
}
func printArg(a []*Node) string {
	s := printSeq(a)
	if s == "" {
		return `""`
	}
	return s
}

func binderMask(f string, j int) bool {
	switch f {
	case "@map", "@filter", "@reduce":
		return j == 1
	case "@for":
		return j == 1 || j == 2
	}
	return false
}

// the body with {i} replaced by the i-th argument (missing/negative: nothing), not under binders
func substSeq(t []*Node, args [][]*Node) []*Node {
	var out []*Node
	for _, n := range t {
		switch n.Op {
		case "m":
			if n.I >= 0 && int(n.I) < len(args) {
				out = append(out, args[n.I]...)
			}
		case "call":
			c := &Node{Op: "call", S: n.S}
			for j, a := range n.Args {
				if binderMask(n.S, j) {
					c.Args = append(c.Args, a)
				} else {
					c.Args = append(c.Args, substSeq(a, args))
				}
			}
			out = append(out, c)
		default:
			out = append(out, n)
		}
	}
	return out
}

// every call of a user function replaced by its substituted body (one level)
func inlineSeq(t []*Node, bodies map[string][]*Node) []*Node {
	var out []*Node
	for _, n := range t {
		if n.Op != "call" {
			out = append(out, n)
			continue
		}
		var xs [][]*Node
		for _, a := range n.Args {
			xs = append(xs, inlineSeq(a, bodies))
		}
		if b, ok := bodies[n.S]; ok {
			out = append(out, substSeq(b, xs)...)
		} else {
			out = append(out, &Node{Op: "call", S: n.S, Args: xs})
		}
	}
	return out
}

func walk(t []*Node, inBinder bool, f func(n *Node, inBinder bool)) {
	for _, n := range t {
		f(n, inBinder)
		for j, a := range n.Args {
			walk(a, inBinder || binderMask(n.S, j), f)
		}
	}
}

// ---------------------------------------------------------------- case input / output
type Ctx struct {
	M []string          `json:"m"`
	K map[string]string `json:"k"`
}
type Input struct {
	Funcs string `json:"funcs"` // functions file text
	Tmpl  string `json:"tmpl"`
	Inl   string `json:"inl"` // the template with funcs-file calls inlined (= tmpl when there are none)
	Ctxs  []Ctx  `json:"ctxs"`
	Timed bool   `json:"timed"`
	W     int    `json:"workers"`
	Eq    *EqIn  `json:"eq,omitempty"` // equality-only case (no model prediction); the other fields are unused
}

// equality-only cases: kind "lib" (optimising vs plain builder over helpers that are not modelled) and
// kind "cli" (the rare binary: <switch> --funcs F expression <call> [--no-optimize] vs the inlined body)
type EqIn struct {
	Kind     string     `json:"kind"`
	Tmpl     string     `json:"tmpl,omitempty"`
	Ctxs     []Ctx      `json:"ctxs,omitempty"`
	Switches []string   `json:"switches,omitempty"`
	Funcs    string     `json:"funcs,omitempty"`
	Files    [][2]string `json:"files,omitempty"` // auxiliary files (name, content) next to the funcs file
	Call     string     `json:"call,omitempty"`
	Inlined  string     `json:"inlined,omitempty"`
	Data     []string   `json:"data,omitempty"`
	EnvFuncs bool       `json:"env_funcs,omitempty"` // pass the funcs file through RARE_FUNC_FILES instead of --funcs
	// kind "seq": whole evaluation sequences on ONE compiled expression. Every pass is a list of indices
	// into Ctxs; for every pass the template is compiled once by the optimising and once by the plain
	// builder and evaluated step by step; with Stateless also by a fresh compile per step (the value of
	// an expression on a context must not depend on earlier evaluations)
	Passes    [][]int `json:"passes,omitempty"`
	Stateless bool    `json:"stateless,omitempty"`
	// kind "alt": every group lists (template, context) pairs that must evaluate to the same string, each by
	// the optimising and by the plain builder (eg. a constant written in a formula vs read from a group)
	Alts [][]AltItem `json:"alts,omitempty"`
	// kind "lib": after the sequential pass, this many goroutines evaluate the same compiled expressions on
	// the contexts in rotated order; any result differing from the sequential one fails the case
	Conc int `json:"conc,omitempty"`
}

type AltItem struct {
	Tmpl string `json:"tmpl"`
	Ctx  Ctx    `json:"ctx"`
}
type Row struct {
	Opt, Plain, Inl string
	LOpt, LPlain    bool
}
type Output struct {
	Panic string   `json:"panic,omitempty"`
	Names []string `json:"names"`
	NErr  int      `json:"nerr"`
	Rows  []Row    `json:"rows"`
	Conc  bool     `json:"conc"`
}

type hctx struct {
	m []string
	k map[string]string
	n *int64
}

func (c *hctx) GetMatch(i int) string {
	atomic.AddInt64(c.n, 1)
	if i >= 0 && i < len(c.m) {
		return c.m[i]
	}
	return ""
}
func (c *hctx) GetKey(k string) string {
	atomic.AddInt64(c.n, 1)
	return c.k[k]
}

func evalCount(kb *expressions.CompiledKeyBuilder, c Ctx) (string, bool) {
	var n int64
	s := kb.BuildKey(&hctx{c.M, c.K, &n})
	return s, n > 0
}

var loadMu sync.Mutex // funclib.Additional is process-global

type compiledCase struct {
	in              Input
	names           []string
	nerr            int
	kO, kP, kI      *expressions.CompiledKeyBuilder
	panicked        string
}

// the path of main.go's Before hook and cmd/expressions.go
func compileCase(in Input) (cc compiledCase) {
	cc.in = in
	defer func() {
		if r := recover(); r != nil {
			cc.panicked = fmt.Sprint(r)
		}
	}()
	loadMu.Lock()
	defer loadMu.Unlock()
	funclib.Additional = make(funclib.FunctionSet)
	if in.Funcs != "" {
		cmplr := funclib.NewKeyBuilder()
		m, err := funcfile.LoadDefinitions(cmplr, strings.NewReader(in.Funcs), "gen")
		if err != nil {
			// "<source>: Had %d error(s)"
			fmt.Sscanf(strings.TrimPrefix(err.Error(), "gen: Had "), "%d", &cc.nerr)
		}
		for k := range m {
			cc.names = append(cc.names, k)
		}
		sort.Strings(cc.names)
		funclib.TryAddFunctions(m, err)
	}
	cc.kO, _ = funclib.NewKeyBuilderEx(true).Compile(in.Tmpl)
	cc.kP, _ = funclib.NewKeyBuilderEx(false).Compile(in.Tmpl)
	cc.kI, _ = funclib.NewKeyBuilderEx(true).Compile(in.Inl)
	return
}

func guarded(f func()) (p string) {
	done := make(chan string, 1)
	go func() {
		defer func() {
			if r := recover(); r != nil {
				done <- fmt.Sprint(r)
				return
			}
			done <- ""
		}()
		f()
	}()
	select {
	case p = <-done:
		return p
	case <-time.After(60 * time.Second):
		return "timeout"
	}
}

func (cc *compiledCase) evalPlain() (out Output) {
	out.Names, out.NErr, out.Conc = cc.names, cc.nerr, true
	if out.Names == nil {
		out.Names = []string{}
	}
	if cc.panicked != "" {
		out.Panic = cc.panicked
		return
	}
	p := guarded(func() {
		for _, c := range cc.in.Ctxs {
			var r Row
			r.Opt, r.LOpt = evalCount(cc.kO, c)
			r.Plain, r.LPlain = evalCount(cc.kP, c)
			r.Inl, _ = evalCount(cc.kI, c)
			out.Rows = append(out.Rows, r)
		}
		// the same compiled expressions shared by W goroutines
		w := cc.in.W
		if w < 1 {
			w = 1
		}
		var bad int64
		var wg sync.WaitGroup
		for g := 0; g < w; g++ {
			wg.Add(1)
			go func(g int) {
				defer wg.Done()
				defer func() {
					if r := recover(); r != nil {
						atomic.AddInt64(&bad, 1)
					}
				}()
				for round := 0; round < 3; round++ {
					for j := range cc.in.Ctxs {
						i := (j + g) % len(cc.in.Ctxs)
						c := cc.in.Ctxs[i]
						a, _ := evalCount(cc.kO, c)
						b, _ := evalCount(cc.kP, c)
						d, _ := evalCount(cc.kI, c)
						if a != out.Rows[i].Opt || b != out.Rows[i].Plain || d != out.Rows[i].Inl {
							atomic.AddInt64(&bad, 1)
						}
					}
				}
			}(g)
		}
		wg.Wait()
		out.Conc = bad == 0
	})
	if p != "" {
		out.Panic = p
	}
	return
}

// timed cases: value at two instants at least one clock tick apart
func evalTimed(ccs []*compiledCase) []Output {
	outs := make([]Output, len(ccs))
	type v struct{ o, p []string }
	first := make([]v, len(ccs))
	snap := func(cc *compiledCase) (x v, p string) {
		p = guarded(func() {
			for _, c := range cc.in.Ctxs {
				a, _ := evalCount(cc.kO, c)
				b, _ := evalCount(cc.kP, c)
				x.o = append(x.o, a)
				x.p = append(x.p, b)
			}
		})
		return
	}
	for i, cc := range ccs {
		outs[i].Names, outs[i].NErr, outs[i].Conc = cc.names, cc.nerr, true
		if outs[i].Names == nil {
			outs[i].Names = []string{}
		}
		if cc.panicked != "" {
			outs[i].Panic = cc.panicked
			continue
		}
		first[i], outs[i].Panic = snap(cc)
	}
	time.Sleep(1100 * time.Millisecond)
	for i, cc := range ccs {
		if outs[i].Panic != "" {
			continue
		}
		second, p := snap(cc)
		if p != "" {
			outs[i].Panic = p
			continue
		}
		for j := range cc.in.Ctxs {
			outs[i].Rows = append(outs[i].Rows, Row{LOpt: first[i].o[j] != second.o[j], LPlain: first[i].p[j] != second.p[j]})
		}
	}
	return outs
}

// ---------------------------------------------------------------- Coq term
func coqCtxs(cs []Ctx) string {
	var parts []string
	for _, c := range cs {
		var ks []string
		keys := make([]string, 0, len(c.K))
		for k := range c.K {
			keys = append(keys, k)
		}
		sort.Strings(keys)
		for _, k := range keys {
			ks = append(ks, fmt.Sprintf("(%s,%s)", HS(k), HS(c.K[k])))
		}
		parts = append(parts, fmt.Sprintf("(%s,%s)", HLS(c.M), CoqList(ks)))
	}
	return CoqList(parts)
}

func mkCase(in Input, out Output, nontrivial bool, tags []string) Case {
	var term string
	if out.Panic != "" {
		term = fmt.Sprintf("cP %s %s %s %s", B(in.Timed), HS(in.Funcs), HS(in.Tmpl), coqCtxs(in.Ctxs))
	} else {
		var rows []string
		for _, r := range out.Rows {
			rows = append(rows, fmt.Sprintf("(%s,%s,%s,%s,%s)", HS(r.Opt), HS(r.Plain), HS(r.Inl), B(r.LOpt), B(r.LPlain)))
		}
		term = fmt.Sprintf("c %s %s %s %s %s %d %s %s", B(in.Timed), HS(in.Funcs), HS(in.Tmpl), coqCtxs(in.Ctxs),
			HLS(out.Names), out.NErr, CoqList(rows), B(out.Conc))
	}
	hexRows := make([]map[string]any, 0, len(out.Rows))
	for _, r := range out.Rows {
		hexRows = append(hexRows, map[string]any{"opt": r.Opt, "plain": r.Plain, "inl": r.Inl, "lookups_opt": r.LOpt, "lookups_plain": r.LPlain,
			"opt_hex": hex.EncodeToString([]byte(r.Opt))})
	}
	kb, _ := json.Marshal(in)
	return Case{
		Coq:        term,
		Desc:       map[string]any{"input": in, "observed": map[string]any{"panic": out.Panic, "names": out.Names, "nerr": out.NErr, "rows": hexRows, "concurrent_equals_sequential": out.Conc}},
		Key:        string(kb),
		Nontrivial: nontrivial,
		Tags:       tags,
	}
}


// ---------------------------------------------------------------- equality-only cases
func runEqLib(e *EqIn) (groups [][]string) {
	fail := func(msg string) [][]string { return [][]string{{"\x01" + msg, ""}} }
	var ks []*expressions.CompiledKeyBuilder
	p := guarded(func() {
		loadMu.Lock()
		defer loadMu.Unlock()
		// a fresh table and freshly compiled (stateful) stages for every builder
		build := func(opt, withFuncs bool, tmpl string) {
			funclib.Additional = make(funclib.FunctionSet)
			if withFuncs {
				funclib.TryAddFunctions(funcfile.LoadDefinitions(funclib.NewKeyBuilder(), strings.NewReader(e.Funcs), "gen"))
			}
			k, _ := funclib.NewKeyBuilderEx(opt).Compile(tmpl)
			ks = append(ks, k)
		}
		if e.Funcs == "" {
			build(true, false, e.Tmpl)
			build(false, false, e.Tmpl)
		} else { // call (optimising, plain) and the inlined body (optimising, plain)
			build(true, true, e.Call)
			build(false, true, e.Call)
			build(true, true, e.Inlined) // the inlined body may still call earlier definitions
			build(false, true, e.Inlined)
		}
		funclib.Additional = make(funclib.FunctionSet)
	})
	if p != "" {
		return fail("compile: " + p)
	}
	// each builder sees the contexts in the same order (some stages remember the first value they saw)
	p = guarded(func() {
		for _, c := range e.Ctxs {
			var g []string
			for _, k := range ks {
				a, _ := evalCount(k, c)
				g = append(g, a)
			}
			groups = append(groups, g)
		}
	})
	if p != "" {
		return fail("eval: " + p)
	}
	if e.Conc > 1 && len(groups) == len(e.Ctxs) {
		var bad int64
		var wg sync.WaitGroup
		for w := 0; w < e.Conc; w++ {
			wg.Add(1)
			go func(w int) {
				defer wg.Done()
				defer func() {
					if r := recover(); r != nil {
						atomic.AddInt64(&bad, 1)
					}
				}()
				for round := 0; round < 20; round++ {
					for j := range e.Ctxs {
						i := (j + w) % len(e.Ctxs)
						for b, k := range ks {
							if a, _ := evalCount(k, e.Ctxs[i]); a != groups[i][b] {
								atomic.AddInt64(&bad, 1)
							}
						}
					}
				}
			}(w)
		}
		wg.Wait()
		if bad > 0 {
			groups = append(groups, []string{"\x01concurrent evaluation differs from sequential", ""})
		}
	}
	return
}

var (
	rareOnce sync.Once
	rareBin  string
	rareErr  string
)

func workdir() string {
	w := os.Getenv("VERIF_WORK")
	if w == "" {
		w = filepath.Join(os.TempDir(), "verifh")
	}
	os.MkdirAll(w, 0o755)
	return w
}

func buildRare() {
	repo := os.Getenv("VERIF_REPO")
	if repo == "" {
		repo = "/repo"
	}
	rareBin = filepath.Join(workdir(), fmt.Sprintf("rare-c10-%d", os.Getpid()))
	cmd := exec.Command("go", "build", "-o", rareBin, ".")
	cmd.Dir = repo
	cmd.Env = append(os.Environ(), "GOFLAGS=-mod=mod", "GOPROXY=off", "GOSUMDB=off", "GOTOOLCHAIN=local")
	if out, err := cmd.CombinedOutput(); err != nil {
		rareErr = err.Error() + ": " + string(out)
	}
}

func runRare(dir string, env []string, args ...string) string {
	cmd := exec.Command(rareBin, args...)
	cmd.Dir = dir
	cmd.Env = append([]string{"PATH=" + os.Getenv("PATH"), "HOME=" + dir, "TERM=dumb"}, env...)
	var out strings.Builder
	cmd.Stdout = &out
	done := make(chan error, 1)
	if err := cmd.Start(); err != nil {
		return "\x01start: " + err.Error()
	}
	go func() { done <- cmd.Wait() }()
	select {
	case err := <-done:
		code := 0
		if err != nil {
			if ee, ok := err.(*exec.ExitError); ok {
				code = ee.ExitCode()
			} else {
				return "\x01wait: " + err.Error()
			}
		}
		return fmt.Sprintf("%s|exit=%d", out.String(), code)
	case <-time.After(30 * time.Second):
		cmd.Process.Kill()
		return "\x01timeout"
	}
}

func runEqCli(e *EqIn) [][]string {
	rareOnce.Do(buildRare)
	if rareErr != "" {
		return [][]string{{"\x01build: " + rareErr, ""}}
	}
	dir, err := os.MkdirTemp(workdir(), "c10cli")
	if err != nil {
		return [][]string{{"\x01" + err.Error(), ""}}
	}
	defer os.RemoveAll(dir)
	os.WriteFile(filepath.Join(dir, "f.funcs"), []byte(e.Funcs), 0o644)
	for _, f := range e.Files {
		os.WriteFile(filepath.Join(dir, f[0]), []byte(f[1]), 0o644)
	}
	var data []string
	for _, d := range e.Data {
		data = append(data, "-d", d)
	}
	withFuncs := append([]string{}, e.Switches...)
	var env []string
	if e.EnvFuncs {
		env = []string{"RARE_FUNC_FILES=" + filepath.Join(dir, "f.funcs")}
	} else {
		withFuncs = append(withFuncs, "--funcs", "f.funcs")
	}
	call := append(append(append([]string{}, withFuncs...), "expression"), data...)
	plain := append(append(append([]string{}, e.Switches...), "expression"), data...)
	g := []string{
		runRare(dir, env, append(call, e.Call)...),
		runRare(dir, env, append(call, "--no-optimize", e.Call)...),
		runRare(dir, nil, append(plain, e.Inlined)...),
		runRare(dir, nil, append(plain, "--no-optimize", e.Inlined)...),
	}
	return [][]string{g}
}

func runEq(e *EqIn) [][]string {
	if e.Kind == "cli" {
		return runEqCli(e)
	}
	if e.Kind == "seq" {
		return runEqSeq(e)
	}
	if e.Kind == "alt" {
		return runEqAlt(e)
	}
	return runEqLib(e)
}

func mkEqCase(e *EqIn, groups [][]string, tags []string) Case {
	var gs []string
	for _, g := range groups {
		gs = append(gs, HLS(g))
	}
	in := Input{Eq: e}
	kb, _ := json.Marshal(in)
	return Case{
		Coq:        "ce " + CoqList(gs),
		Desc:       map[string]any{"input": in, "observed": map[string]any{"groups": groups}},
		Key:        string(kb),
		Nontrivial: true,
		Tags:       tags,
	}
}

// helpers that are not modelled, with constant, dynamic and mixed text in their arguments:
// only "optimising builder = plain builder" on every context is checked
func (g *gen) eqLibCases() []Case {
	r := g.r
	empty := Ctx{M: []string{}, K: map[string]string{}}
	mk := func(vals ...string) Ctx { return Ctx{M: vals, K: map[string]string{}} }
	day := fmt.Sprintf("20%02d-%02d-%02d", r.Range(10, 30), r.Range(1, 12), r.Range(1, 28))
	clock := fmt.Sprintf("%02d:%02d:%02d", r.Range(0, 23), r.Range(0, 59), r.Range(0, 59))
	clock2 := fmt.Sprintf("%02d:%02d:%02d", r.Range(0, 23), r.Range(0, 59), r.Range(0, 59))
	n1, n2 := fmt.Sprint(r.Range(1, 5000)), fmt.Sprint(r.Range(1, 90))
	type tc struct {
		tmpl   string
		ctxs   []Ctx
		poison bool // time auto-detection over an argument mixing literal text and a dynamic part
	}
	list := []tc{
		{`{time "` + day + ` {0}"}`, []Ctx{mk(clock), mk(clock2)}, true},
		{`{time "` + day + ` {0}" cache}`, []Ctx{mk(clock)}, true},
		{`{time "` + day + `T{0}Z"}`, []Ctx{mk(clock), mk(clock2)}, true},
		{`x{sumi 1 {time "` + day + ` {0}"}}`, []Ctx{mk(clock)}, true},
		{`{buckettime "` + day + ` {0}" hour}`, []Ctx{mk(clock), mk(clock2)}, true},
		{`{timeformat {time "` + day + ` {0}"} RFC3339}`, []Ctx{mk(clock)}, true},
		{`{time {0}}`, []Ctx{mk(day + " " + clock), mk(day + " " + clock2)}, false},
		{`{time "{0} {1}"}`, []Ctx{mk(day, clock), mk(day, clock2)}, false},
		{`{time {0} RFC3339}`, []Ctx{mk(day + "T" + clock + "Z")}, false},
		{`{time "` + day + ` ` + clock + `"} {0}`, []Ctx{mk("a")}, false},
		{`{time "` + day + ` {0}" auto}`, []Ctx{mk(clock)}, false},
		{`{buckettime {0} day}`, []Ctx{mk(day + " " + clock)}, false},
		{`{timeattr {time {0}} weekday}-{timeattr {time "` + day + `"} quarter}`, []Ctx{mk(day)}, false},
		{`{timeformat {0} "2006-01-02" utc}|{timeformat ` + n1 + `000 RFC3339}`, []Ctx{mk("1577836800")}, false},
		{`{duration {0}s}/{duration ` + n2 + `m}/{durationformat {1}}`, []Ctx{mk(n2, n1)}, false},
		{`{sumf {0} 1.5} {multf 2 ` + n2 + `.5} {divf {0} 4}`, []Ctx{mk(n1)}, false},
		{`{round {divf {0} 3} 2} {round ` + n1 + `.567 1} {ceil {0}.2} {floor 2.7}`, []Ctx{mk(n2)}, false},
		{`{percent {0} 1 0 200} {percent 0.25} {hf {0}.5} {hf ` + n1 + `.25}`, []Ctx{mk(n2)}, false},
		{`{format "%s-%5s" {0} x} {format %d-%s ` + n1 + ` {0}}`, []Ctx{mk("ab")}, false},
		{`{@join {@split {0} ,} -} {@split "a,b" ,} {@slice {@split {0} ,} 1} {@select {@split {0} ,} ` + fmt.Sprint(r.Range(-2, 3)) + `}`, []Ctx{mk("p,q,r")}, false},
		{`{@range {0}} {@range 1 ` + fmt.Sprint(r.Range(2, 6)) + `} {@join {@range 0 {0} 2} +}`, []Ctx{mk("5")}, false},
		{`{basename {0}} {dirname /a/b/c.txt} {extname {0}}`, []Ctx{mk("/x/y/z.log")}, false},
		{`{json {0} a.b} {json "\{\"k\":` + n1 + `\}" k}`, []Ctx{mk(`{"a":{"b":7}}`)}, false},
		{`{lt {0} 5} {gt ` + n2 + ` {0}} {lte 1 1} {gte {0} {0}}`, []Ctx{mk("3"), mk("x")}, false},
		{`{! "[0] * 2 + ` + n2 + `"} {! 1 + 2 * 3}`, []Ctx{mk("4"), mk("z")}, false},
		{`{bytesize {0}} {bytesize ` + n1 + `000 2} {bytesizesi {0} 1} {downscale ` + n1 + `000}`, []Ctx{mk("123456")}, false},
		{`{repeat ab 3}{repeat {0} 2} {bar {0} 10 10} {bar 5 10 10}`, []Ctx{mk("3")}, false},
		{`{color red {0}} {color blue X}`, []Ctx{mk("y")}, false},
		{`{isnum {0}} {isnum ` + n1 + `.5} {log10 {0}} {sqrt 16} {pow 2 {0}}`, []Ctx{mk("100")}, false},
		{`{lookup {0} nofile} {haskey {0} nofile} {load nofile}`, []Ctx{mk("k")}, false},
	}
	var cases []Case
	for _, t := range list {
		e := &EqIn{Kind: "lib", Tmpl: t.tmpl, Ctxs: append(t.ctxs, empty)}
		tags := []string{"unmodelled-helpers"}
		if t.poison {
			tags = append(tags, "kf:C10-time-autodetect-probe")
		}
		cases = append(cases, mkEqCase(e, runEq(e), tags))
	}
	return cases
}



func runEqSeq(e *EqIn) (groups [][]string) {
	fail := func(msg string) [][]string { return [][]string{{"\x01" + msg, ""}} }
	compile := func(opt bool) *expressions.CompiledKeyBuilder {
		loadMu.Lock()
		defer loadMu.Unlock()
		funclib.Additional = make(funclib.FunctionSet)
		k, _ := funclib.NewKeyBuilderEx(opt).Compile(e.Tmpl)
		return k
	}
	p := guarded(func() {
		for _, pass := range e.Passes {
			kO, kP := compile(true), compile(false)
			for _, i := range pass {
				if i < 0 || i >= len(e.Ctxs) {
					continue
				}
				c := e.Ctxs[i]
				a, _ := evalCount(kO, c)
				b, _ := evalCount(kP, c)
				g := []string{a, b}
				if e.Stateless {
					f1, _ := evalCount(compile(false), c)
					f2, _ := evalCount(compile(true), c)
					g = append(g, f1, f2)
				}
				groups = append(groups, g)
			}
		}
	})
	if p != "" {
		return fail(p)
	}
	return
}

// sequences of evaluations on one compiled expression: the first evaluation on the context the
// optimiser probes with (empty / missing groups), unparseable values, the same value on consecutive
// evaluations, the same values in another order
func (g *gen) eqSeqCases() []Case {
	r := g.r
	day := fmt.Sprintf("20%02d-%02d-%02d", r.Range(10, 30), r.Range(1, 12), r.Range(1, 28))
	clock := func() string { return fmt.Sprintf("%02d:%02d:%02d", r.Range(0, 23), r.Range(0, 59), r.Range(0, 59)) }
	c1, c2 := clock(), clock()
	nginx := func() string { return fmt.Sprintf("%d/Mar/20%02d:%s +0000", r.Range(1, 28), r.Range(10, 30), clock()) }
	unix1, unix2 := fmt.Sprint(r.Range(1000000000, 1900000000)), fmt.Sprint(r.Range(1000000000, 1900000000))
	type tc struct {
		tmpl      string
		good      [2]string // two values that parse
		bad       string    // a value that does not
		stateless bool
	}
	full := `"2006-01-02 15:04:05"`
	list := []tc{
		{`{time {0} ` + full + `}`, [2]string{day + " " + c1, day + " " + c2}, "garbage", true},
		{`{time {0} NGINX}`, [2]string{nginx(), nginx()}, "12/Foo/2020", true},
		{`{time {0} RFC3339 utc}`, [2]string{day + "T" + c1 + "Z", day + "T" + c2 + "Z"}, day, true},
		{`{time "` + day + ` {0}" ` + full + `}`, [2]string{c1, c2}, "25:61:00", true},
		{`{time "` + day + ` {0}" ` + full + ` local}`, [2]string{c1, c2}, "x", true},
		{`{time {k1} RFC3339}`, [2]string{day + "T" + c1 + "Z", day + "T" + c2 + "Z"}, "nope", true},
		{`{buckettime {0} day ` + full + `}`, [2]string{day + " " + c1, day + " " + c2}, "garbage", true},
		{`{buckettime "` + day + ` {0}" hour ` + full + ` utc}`, [2]string{c1, c2}, "??", true},
		{`{timeformat {time {0} ` + full + `} "15:04" utc}`, [2]string{day + " " + c1, day + " " + c2}, "bad", true},
		{`x{sumi {time {0} ` + full + `} 1}y`, [2]string{day + " " + c1, day + " " + c2}, "bad", true},
		{`{timeformat {0} RFC3339 utc}`, [2]string{unix1, unix2}, "1e9", true},
		{`{timeattr {0} weekday utc}-{timeattr {0} quarter}`, [2]string{unix1, unix2}, "z", true},
		{`{duration {0}}|{durationformat {0}}`, [2]string{"90s", "3600"}, "1x", true},
		{`{sumf {0} 1.5}|{json {0} a}|{format %5s {0}}|{sumi {0} 1}|{hi {0}}`, [2]string{"41", `{"a":5}`}, "--", true},
		{`{time {0} auto}`, [2]string{day + " " + c1, day + "T" + c2 + "Z"}, "garbage", true},
		// auto-detected layout: remembered by design, so only optimising = plain on the same sequence
		{`{time {0}}`, [2]string{day + " " + c1, day + " " + c2}, "garbage", false},
		{`{time "` + day + ` {0}"}`, [2]string{c1, c2}, "25:61:00", false},
		{`{buckettime {0} minute}`, [2]string{day + " " + c1, day + " " + c2}, "garbage", false},
	}
	var cases []Case
	for _, t := range list {
		ctx := func(v string) Ctx { return Ctx{M: []string{v}, K: map[string]string{"k1": v}} }
		ctxs := []Ctx{
			{M: []string{}, K: map[string]string{}}, // 0: all-empty (what the optimiser probes with)
			ctx(""),                                 // 1: the group is there but empty
			ctx(t.good[0]),                          // 2
			ctx(t.good[1]),                          // 3
			ctx(t.bad),                              // 4
		}
		// pass 1: the probe's value first, repeats of good and bad values; pass 2: a bad value first, twice;
		// pass 3: a seeded shuffle of the same multiset
		p1 := []int{0, 2, 0, 3, 4, 4, 2, 2, 1, 1, 3}
		p2 := []int{4, 4, 1, 0, 3, 3, 2, 4, 2}
		p3 := append([]int{}, p1...)
		for i := len(p3) - 1; i > 0; i-- {
			j := r.Intn(i + 1)
			p3[i], p3[j] = p3[j], p3[i]
		}
		e := &EqIn{Kind: "seq", Tmpl: t.tmpl, Ctxs: ctxs, Passes: [][]int{p1, p2, p3}, Stateless: t.stateless}
		tags := []string{"sequence"}
		if t.stateless {
			tags = append(tags, "sequence-stateless")
		}
		cases = append(cases, mkEqCase(e, runEq(e), tags))
	}
	return cases
}


func runEqAlt(e *EqIn) (groups [][]string) {
	fail := func(msg string) [][]string { return [][]string{{"\x01" + msg, ""}} }
	p := guarded(func() {
		for _, alts := range e.Alts {
			var g []string
			for _, it := range alts {
				for _, opt := range []bool{true, false} {
					loadMu.Lock()
					funclib.Additional = make(funclib.FunctionSet)
					k, _ := funclib.NewKeyBuilderEx(opt).Compile(it.Tmpl)
					loadMu.Unlock()
					a, _ := evalCount(k, it.Ctx)
					g = append(g, a)
				}
			}
			groups = append(groups, g)
		}
	})
	if p != "" {
		return fail(p)
	}
	return
}

// {! formula}: compile-time simplification must give the run-time value. A constant operand written in
// the formula vs the same constant read from a group (which nothing can fold), over ordinary, negative,
// empty, missing, textual, infinite and NaN values of the variable, with absorbing / neutral constants
// on either side of every operator
func (g *gen) eqMathCases() []Case {
	r := g.r
	ops := []string{"*", "&", "&&", "||", "+", "-", "/", "|", "%", "^", "==", "<", ">=", "<<"}
	// constant as written, and the numeral a group must hold to mean the same
	consts := [][2]string{{"0", "0"}, {"1", "1"}, {"(3-3)", "0"}, {"(0-1)", "-1"}, {"2", "2"}, {"(2*0)", "0"}, {"(1||0)", "1"}, {"0.5", "0.5"}}
	vals := []string{"5", "-3", "0", "", "abc", "inf", "-inf", "nan", "1e400", "2.5", "-0"}
	var cases []Case
	for n := 0; n < 14; n++ {
		op := ops[n%len(ops)]
		if n >= len(ops) {
			op = Pick(r, ops[:4])
		}
		var alts [][]AltItem
		for _, c := range consts {
			for _, side := range []bool{false, true} {
				var fC, fG string
				if side {
					fC, fG = c[0]+op+"[0]", "[1]"+op+"[0]"
				} else {
					fC, fG = "[0]"+op+c[0], "[0]"+op+"[1]"
				}
				wrap := Pick(r, []string{"%s", "2+%s", "(%s)*3", "%s-1", "1&&(%s)"})
				fC, fG = fmt.Sprintf(wrap, fC), fmt.Sprintf(wrap, fG)
				// a few values per shape (all of them would be 176 evaluations per case)
				for k := 0; k < 3; k++ {
					v := vals[(n+k*5+len(alts))%len(vals)]
					items := []AltItem{
						{`{! "` + fC + `"}`, Ctx{M: []string{v, c[1]}, K: map[string]string{}}},
						{`{! "` + fG + `"}`, Ctx{M: []string{v, c[1]}, K: map[string]string{}}},
					}
					alts = append(alts, items)
				}
			}
		}
		e := &EqIn{Kind: "alt", Alts: alts}
		cases = append(cases, mkEqCase(e, runEq(e), []string{"math-const-vs-group", "math-op:" + op}))
	}
	return cases
}

// funcs-file functions whose body reaches a stage that remembers what it saw (time / buckettime with an
// auto-detected layout) or other time helpers, called with arguments mixing constant text and captures:
// call (optimising, plain) = inlined body (optimising, plain) on every context
func (g *gen) eqFnTimeCases() []Case {
	r := g.r
	empty := Ctx{M: []string{}, K: map[string]string{}}
	mk := func(vals ...string) Ctx { return Ctx{M: vals, K: map[string]string{}} }
	day := fmt.Sprintf("20%02d-%02d-%02d", r.Range(10, 30), r.Range(1, 12), r.Range(1, 28))
	c1 := fmt.Sprintf("%02d:%02d:%02d", r.Range(0, 23), r.Range(0, 59), r.Range(0, 59))
	c2 := fmt.Sprintf("%02d:%02d:%02d", r.Range(0, 23), r.Range(0, 59), r.Range(0, 59))
	// bodies use "{0}" / "{1}" (quoted) so that the textual substitution of an argument stays one argument
	type fam struct {
		defs    []string // name body
		call    []string // name, arg0, arg1..
		ctxs    []Ctx
		stateful bool // auto-detected layout fed from a call-site argument that mixes text and a capture
	}
	list := []fam{
		{[]string{`ts {time "{0}"}`}, []string{"ts", day + " {0}"}, []Ctx{mk(c1), mk(c2)}, true},
		{[]string{`ts {time "{0}" cache}`}, []string{"ts", day + "T{0}Z"}, []Ctx{mk(c1), mk(c2)}, true},
		{[]string{`bt {buckettime "{0}" hour}`}, []string{"bt", day + " {0}"}, []Ctx{mk(c1), mk(c2)}, true},
		{[]string{`tf {timeformat {time "{0}"} RFC3339}-{1}`}, []string{"tf", day + " {0}", "x{0}"}, []Ctx{mk(c1)}, true},
		{[]string{`t2 {time "{0} {1}"}`}, []string{"t2", day, "{0}"}, []Ctx{mk(c1), mk(c2)}, true},
		{[]string{`ts {time "{0}"}`, `t3 {ts "{0} {1}"}+{sumi {ts "{0} {1}"} 1}`}, []string{"t3", day, "{0}"}, []Ctx{mk(c1)}, true},
		{[]string{`wd {timeattr {time "{0}"} weekday}/{time "{0}" auto}`}, []string{"wd", day + " {0}"}, []Ctx{mk(c1)}, true},
		{[]string{`ts {time "{0}"}`}, []string{"ts", "{0}"}, []Ctx{mk(day + " " + c1), mk(day + " " + c2)}, false},
		{[]string{`ts {time "{0}"}`}, []string{"ts", day + " " + c1}, []Ctx{mk("a")}, false},
		{[]string{`tz {time "{0}" RFC3339}|{timeformat "{1}" "2006-01-02" utc}`}, []string{"tz", day + "T{0}Z", "15778{1}"}, []Ctx{mk(c1, "36800")}, false},
		{[]string{`du {duration "{0}"}:{durationformat "{1}"}`}, []string{"du", "{0}m", "1{1}"}, []Ctx{mk("5", "00")}, false},
	}
	var cases []Case
	for _, f := range list {
		var lines []string
		cont := false
		for _, d := range f.defs {
			lines = append(lines, g.layoutDef(d, &cont)...)
		}
		// the last definition is the one called; its body with {i} replaced by the i-th argument text
		last := f.defs[len(f.defs)-1]
		body := last[strings.Index(last, " ")+1:]
		inl := body
		for i := 0; i < 3; i++ {
			inl = strings.ReplaceAll(inl, fmt.Sprintf("{%d}", i), "\x02"+fmt.Sprint(i)+"\x03")
		}
		for i := 0; i < 3; i++ {
			a := ""
			if i+1 < len(f.call) {
				a = f.call[i+1]
			}
			inl = strings.ReplaceAll(inl, "\x02"+fmt.Sprint(i)+"\x03", a)
		}
		call := "{" + f.call[0]
		for _, a := range f.call[1:] {
			call += ` "` + a + `"`
		}
		call += "}"
		e := &EqIn{Kind: "lib", Funcs: strings.Join(lines, "\n") + "\n", Call: call, Inlined: inl, Ctxs: append(f.ctxs, empty)}
		tags := []string{"funcs-file-time"}
		if f.stateful {
			tags = append(tags, "kf:C10-time-probe-through-function")
		}
		cases = append(cases, mkEqCase(e, runEq(e), tags))
	}
	return cases
}


// funcs-file bodies in which white space is significant: runs of blanks and tabs in literal text and in
// quoted arguments, leading blanks after the name, blanks before a continuation backslash, a tab instead
// of the blank after the name (no definition). Modelled cases: loader, call and inlined body byte for byte
func (g *gen) whitespaceCases() []Case {
	r := g.r
	gap := func() string { return Pick(r, []string{"  ", "   ", "\t", " \t ", "  \t"}) }
	type wc struct {
		name, body string   // body with {0} {1}
		args       []string // argument texts of the call (words or captures)
		pre, post  string   // literal text around the call
	}
	g1, g2, g3 := gap(), gap(), gap()
	list := []wc{
		{"cols", "{0}" + g1 + "|" + g2 + "{1}", []string{"ab", "cd"}, "[", "]"},
		{"cols", "{0}" + g1 + "|" + g2 + "{1}", []string{"{0}", "{1}"}, "", ""},
		{"ld", g1 + "x{0}", []string{"a"}, "[", "]"},
		{"q", `{eq {0} "a` + g1 + `b"}:{len "p` + g2 + `q"}`, []string{"{0}"}, "", ""},
		{"q2", `{if {0} "yes` + g1 + `no" "` + g2 + `"}!`, []string{"{1}"}, "<", ">"},
		{"sel", `{select "x` + g1 + `y` + g2 + `z" {0}}` + g3 + `.`, []string{"1"}, "", ""},
		{"mix", "a" + g1 + "{0}" + g2 + "{prefix {1} ab}" + g3 + "z", []string{"{0}", "{1}"}, "", ""},
		{"tabname\t", "{0}", []string{"a"}, "", ""}, // a tab after the name: no blank, no expression
		{"w", "{sumi {0}" + gap() + "{1}}" + g1 + "end", []string{"4", "{2}"}, "", ""},
	}
	var cases []Case
	for _, w := range list {
		phrase := w.name + " " + w.body
		if strings.HasSuffix(w.name, "\t") {
			phrase = w.name + w.body
		}
		cont := false
		lines := g.layoutDef(phrase, &cont)
		name := strings.TrimSpace(w.name)
		call := "{" + name
		inl := w.body
		for i, a := range w.args {
			call += " " + a
			inl = strings.ReplaceAll(inl, fmt.Sprintf("{%d}", i), "\x02"+fmt.Sprint(i)+"\x03")
		}
		for i, a := range w.args {
			inl = strings.ReplaceAll(inl, "\x02"+fmt.Sprint(i)+"\x03", a)
		}
		call += "}"
		in := Input{Funcs: strings.Join(lines, "\n") + "\n", Tmpl: w.pre + call + w.post, Inl: w.pre + inl + w.post, W: 2,
			Ctxs: []Ctx{{M: []string{"a" + g1 + "b", "abc", "7"}, K: map[string]string{}}, {M: []string{"a b", "", "x"}, K: map[string]string{}}, {M: []string{}, K: map[string]string{}}}}
		if !loadNames(in.Funcs)[name] {
			in.Inl = in.Tmpl // not registered (the tab case): nothing to inline
		}
		cc := compileCase(in)
		tags := []string{"funcs-file", "funcs-whitespace"}
		if cont {
			tags = append(tags, "funcs-continuation")
		}
		cases = append(cases, mkCase(in, cc.evalPlain(), true, tags))
	}
	return cases
}



// The sub-context pool of the array binders is package-level state. An @for whose condition is truthy on
// the all-empty probe context makes the optimiser's probe run to the iteration cap (<INF>) when the
// template is compiled; whatever that leaves behind in the pool is seen by every later evaluation in the
// process. So: (1) a few such templates, compiled here (optimising and plain builder equal; each costs
// 1,000,000 probe rounds), with nested binders after the loop in the same template; (2) ordinary nested
// binder cases, modelled, evaluated after those compiles (and from several goroutines); (3) the same
// template through the rare binary, optimised vs --no-optimize in separate processes.
func (g *gen) poolCases() []Case {
	r := g.r
	mk := func(vals ...string) Ctx { return Ctx{M: vals, K: map[string]string{}} }
	lim := fmt.Sprint(r.Range(2, 5))
	var cases []Case
	loop := `{@for {0} {lt {0} ` + lim + `} {sumi {0} 1}}`
	nested := `{@map {1} {@reduce {@split {0} ,} {sumi {0} {1}}}}`
	for _, t := range []string{
		loop + `|` + nested,
		`{@map {1} {@filter {@split {0} ,} {gt {0} 2}}}/` + loop,
	} {
		// (no all-empty context here: at run time it would cost another 1,000,000 rounds per builder)
		e := &EqIn{Kind: "lib", Tmpl: t, Ctxs: []Ctx{mk("1", "1,2\x003,4\x0010,20,30"), mk("0", "5\x007,1")}}
		cases = append(cases, mkEqCase(e, runEq(e), []string{"pool", "for-probe-to-cap"}))
	}
	// modelled nested binders, after the compiles above
	arr := "a\x00bb\x00c"
	for _, t := range []string{
		`{@map {0} {@reduce {@ {0} 1 2} {sumi {0} {1}}}}`,
		`{@map {0} {0}:{@map {@ x {0}} {0}y}:{0}}`,
		`{@filter {0} {@len {@map {@ p {0}} {0}{0}}}}|{@reduce {0} {@map {@ {0} {1}} <{0}>}}`,
		`{@map {1} {@map {@ {0} {0}} {@reduce {@ {0} 5} {sumi {0} {1}}}}}`,
	} {
		in := Input{Tmpl: t, Inl: t, W: r.Range(3, 8), Ctxs: []Ctx{mk("1\x002\x003", "4\x005"), mk(arr, "7"), mk("", ""), mk()}}
		cc := compileCase(in)
		cases = append(cases, mkCase(in, cc.evalPlain(), true, []string{"pool", "binder", "nested-binders"}))
	}
	// separate processes: the probe of the optimising run must not change what nested binders give
	e := &EqIn{Kind: "cli", Funcs: "# no functions\n", Call: loop + `|` + nested, Inlined: loop + `|` + nested, Data: []string{"1", "1,2\x003,4"}}
	e.Data = []string{"1", "10,20,30"} // (a NUL byte cannot be passed on a command line)
	e.Call = loop + `|{@map {@ {1} 5,6} {@reduce {@split {0} ,} {sumi {0} {1}}}}`
	e.Inlined = e.Call
	cases = append(cases, mkEqCase(e, runEq(e), []string{"pool", "cli", "for-probe-to-cap"}))
	return cases
}


// float folds with 3-5 operands in every constant / dynamic pattern over values where re-association
// changes the result: (b) a constant written in the template vs the same constant read from a group,
// (a) a funcs-file function over its parameters called with constant and mixed arguments vs the inlined
// body; optimising and plain builder. Equality-only (float arithmetic is not modelled).
func (g *gen) floatFoldCases() []Case {
	r := g.r
	vals := []string{"0.1", "0.2", "0.3", "0.7", "1e16", "1", "-1e16", "3", "1e-17", "1e308", "10", "-0.1", "0.5", "1e-320"}
	ops := []string{"sumf", "subf", "multf", "divf"}
	var cases []Case
	for _, op := range ops {
		var alts [][]AltItem
		type fn struct{ funcs, call, inl string; ctx Ctx }
		var fns []fn
		for n := 3; n <= 5; n++ {
			// patterns: constants first, last, interleaved, a single constant in the middle, random
			pats := [][]bool{}
			first, last, inter, mid := make([]bool, n), make([]bool, n), make([]bool, n), make([]bool, n)
			for i := 0; i < n; i++ {
				first[i] = i < n-1
				last[i] = i > 0
				inter[i] = i%2 == 1
				mid[i] = i == n/2
			}
			rnd := make([]bool, n)
			for i := range rnd {
				rnd[i] = r.Bool()
			}
			rnd[r.Intn(n)] = true
			rnd[(r.Intn(n-1)+1+0)%n] = rnd[(r.Intn(n-1)+1+0)%n] && r.Bool()
			pats = append(pats, first, last, inter, mid, rnd)
			for pi, pat := range pats {
				vs := make([]string, n)
				for i := range vs {
					vs[i] = Pick(r, vals)
				}
				if pi == 0 && n == 3 { // the documented non-associative triple
					vs = []string{"0.1", "0.2", "0.3"}
					pat = []bool{false, true, true}
				}
				var withConst, allDyn, args, params []string
				for i := 0; i < n; i++ {
					ref := fmt.Sprintf("{%d}", i)
					allDyn = append(allDyn, ref)
					params = append(params, ref)
					if pat[i] {
						withConst = append(withConst, vs[i])
						args = append(args, vs[i])
					} else {
						withConst = append(withConst, ref)
						args = append(args, ref)
					}
				}
				ctx := Ctx{M: vs, K: map[string]string{}}
				tC := "{" + op + " " + strings.Join(withConst, " ") + "}"
				tD := "{" + op + " " + strings.Join(allDyn, " ") + "}"
				alts = append(alts, []AltItem{{tC, ctx}, {tD, ctx}})
				if pi < 3 || r.Chance(1, 2) {
					name := fmt.Sprintf("f%s%d", op[:1], n)
					fns = append(fns, fn{name + " {" + op + " " + strings.Join(params, " ") + "}\n",
						"{" + name + " " + strings.Join(args, " ") + "}", tC, ctx})
				}
			}
		}
		e := &EqIn{Kind: "alt", Alts: alts}
		cases = append(cases, mkEqCase(e, runEq(e), []string{"float-fold", "float-const-vs-group", "float-op:" + op}))
		for _, k := range []int{0, len(fns) / 3, 2 * len(fns) / 3, len(fns) - 1} { // 3, 4 and 5 operands
			f := fns[k]
			e := &EqIn{Kind: "lib", Funcs: f.funcs, Call: f.call, Inlined: f.inl, Ctxs: []Ctx{f.ctx, {M: []string{"0.1", "0.2", "0.3", "0.7", "3"}, K: map[string]string{}}, {M: []string{}, K: map[string]string{}}}}
			cases = append(cases, mkEqCase(e, runEq(e), []string{"float-fold", "float-call-vs-inline", "float-op:" + op}))
		}
	}
	return cases
}


// constant loops (an @for that never reads the context) of sizes between "small" and the iteration cap:
// the optimiser evaluates them once, under its probe, and folds the result - which must be what the plain
// builder computes at run time. Directly, with the bound as a capture, and inside funcs-file functions
// (constant body next to a parameter / start value passed as a constant argument); reduced by @len / @select so that the
// output stays small. Equality-only.
func (g *gen) constLoopCases() []Case {
	r := g.r
	mk := func(vals ...string) Ctx { return Ctx{M: vals, K: map[string]string{}} }
	sizes := []int{9999, 10001, 20000, 65537, 250000, r.Range(10002, 60000), r.Range(100, 9998)}
	var cases []Case
	for k, n := range sizes {
		N := fmt.Sprint(n)
		loop := func(bound string) string {
			if k%2 == 0 {
				return `{@for 0 {lt {0} ` + bound + `} {sumi {0} 1}}`
			}
			return `{@for 1 {lte {1} ` + bound + `} {sumi {0} 2}}` // condition on the round counter
		}
		direct := `{@len ` + loop(N) + `}` // one loop per template: every enclosing stage probes it again
		if k == 1 {
			direct += `/{@select ` + loop(N) + ` -1}`
		}
		// written bound (folded under the probe) vs the plain builder, which computes it at run time
		items := []AltItem{{direct, Ctx{M: []string{"x"}, K: map[string]string{}}}}
		e := &EqIn{Kind: "alt", Alts: [][]AltItem{items}}
		tags := []string{"const-loop", fmt.Sprintf("const-loop:%d", n)}
		cases = append(cases, mkEqCase(e, runEq(e), tags))
		if k == 1 || k == 2 { // (every builder re-loads the file: each definition is probed several times)
			// inside a funcs-file function: a constant body next to a parameter; the start value passed as a
			// constant argument (the whole call is then constant)
			start := "0"
			if k%2 == 1 {
				start = "1"
			}
			from := strings.Replace(loop(N), "{@for "+start+" ", "{@for {0} ", 1)
			f := &EqIn{Kind: "lib", Funcs: "cnt {@len " + loop(N) + "}-{0}\nfrom {@len " + from + "}\n",
				Call: "{cnt {0}} {from " + start + "}", Inlined: "{@len " + loop(N) + "}-{0} {@len " + loop(N) + "}",
				Ctxs: []Ctx{mk("x")}}
			cases = append(cases, mkEqCase(f, runEq(f), append(tags, "const-loop-in-function")))
		}
	}
	return cases
}


// funcs-file functions called inside their own arguments (every argument position, depth 2 and 3): the
// compiled body is one object shared by all call sites, so an inner call re-enters the stages the outer
// call is in the middle of. Bodies use multi-argument helpers (format, tab, if, sumi, sumf, @map).
// Call vs fully inlined body, optimising and plain builder, then from 4 goroutines. Equality-only.
func (g *gen) selfNestedCases() []Case {
	r := g.r
	type fdef struct {
		name  string
		arity int
		body  func(a []string) string
	}
	defs := []fdef{
		{"pair", 2, func(a []string) string { return `{format "<%s|%s>" ` + a[0] + ` ` + a[1] + `}` }},
		{"tri", 3, func(a []string) string { return `{format %s-%s-%s ` + a[0] + ` ` + a[1] + ` ` + a[2] + `}` }},
		{"cc", 2, func(a []string) string { return `(` + a[0] + `{if ` + a[1] + ` ` + a[1] + ` none}{tab ` + a[0] + ` ` + a[1] + `})` }},
		{"add", 2, func(a []string) string { return `{sumi ` + a[0] + ` ` + a[1] + ` 1}` }},
		{"addf", 3, func(a []string) string { return `{sumf ` + a[0] + ` ` + a[1] + ` ` + a[2] + `}` }},
		{"mp", 2, func(a []string) string { return `{@map {@ ` + a[0] + ` ` + a[1] + `} [{0}]}` }},
		{"cond", 3, func(a []string) string { return `{if ` + a[0] + ` ` + a[1] + ` ` + a[2] + `}` }},
	}
	leaves := []string{"{0}", "{1}", "{2}", "k", "7"}
	var cases []Case
	for _, d := range defs {
		params := make([]string, d.arity)
		for i := range params {
			params[i] = fmt.Sprintf("{%d}", i)
		}
		cont := false
		funcs := strings.Join(g.layoutDef(d.name+" "+d.body(params), &cont), "\n") + "\n"
		// (call text, inlined text) of a nest: position pos holds an inner call, to the given depth
		var nest func(pos, depth int) (string, string)
		leaf := func() string {
			if strings.HasPrefix(d.name, "add") {
				return Pick(r, []string{"{0}", "{1}", "{2}", "3", "7"}) // numeric constants for the arithmetic bodies
			}
			return Pick(r, leaves)
		}
		nest = func(pos, depth int) (string, string) {
			args, inl := make([]string, d.arity), make([]string, d.arity)
			for i := range args {
				args[i] = leaf()
				inl[i] = args[i]
			}
			if depth > 1 {
				p := pos
				if p < 0 { // every position
					for i := range args {
						args[i], inl[i] = nest(i, depth-1)
					}
				} else {
					args[p], inl[p] = nest(p, depth-1)
				}
			}
			return "{" + d.name + " " + strings.Join(args, " ") + "}", d.body(inl)
		}
		var calls, inls []string
		for pos := 0; pos < d.arity; pos++ {
			c, i := nest(pos, 2)
			calls, inls = append(calls, c), append(inls, i)
		}
		c3, i3 := nest(d.arity-1, 3)
		call, inl := nest(-1, 2)
		calls, inls = append(calls, c3, call), append(inls, i3, call[:0]+inl)
		e := &EqIn{Kind: "lib", Funcs: funcs, Call: strings.Join(calls, " ; "), Inlined: strings.Join(inls, " ; "), Conc: 4,
			Ctxs: []Ctx{{M: []string{"a", "b", "c"}, K: map[string]string{}}, {M: []string{"1", "2", "3"}, K: map[string]string{}},
				{M: []string{"0.1", "", "x y"}, K: map[string]string{}}, {M: []string{}, K: map[string]string{}}}}
		cases = append(cases, mkEqCase(e, runEq(e), []string{"self-nested", "self-nested:" + d.name}))
	}
	return cases
}

// funcs-file definitions whose NAME is the name of a builtin, registered through funclib (the path of
// main.go): the file's definition wins, for the template and for later definitions. Modelled cases
// (call = inlined body = model), two with names of helpers that are not modelled (equality-only), and
// one through the rare binary.
func (g *gen) shadowCases() []Case {
	r := g.r
	w1, w2 := Pick(r, []string{"ab", "Foo", "x1"}), Pick(r, []string{"Cd", "bar", "Zz9"})
	n1, n2 := fmt.Sprint(r.Range(2, 9)), fmt.Sprint(r.Range(2, 9))
	type sc struct{ funcs, tmpl, inl string }
	list := []sc{
		{"upper <{0}>\nshout {upper {0}}!\n", "{upper " + w1 + "} {shout {0}} {lower {upper " + w2 + "}}", "<" + w1 + "> {upper {0}}! {lower <" + w2 + ">}"},
		{"sumi {multi {0} {1}}\ntwice {sumi {0} 2}\n", "{sumi " + n1 + " " + n2 + "} {twice {1}} {subi {sumi 2 " + n2 + "} 1}", "{multi " + n1 + " " + n2 + "} {sumi {1} 2} {subi {multi 2 " + n2 + "} 1}"},
		{"if {unless {0} {1}}\npick {if {0} yes}\n", "{if {0} " + w1 + "}|{pick {2}}|{if \"\" z}", "{unless {0} " + w1 + "}|{if {2} yes}|{unless \"\" z}"},
		{"len [{0}]\nlower {upper {0}}\nboth {len {lower {0}}}\n", "{len " + w1 + "}{lower " + w2 + "}{both {0}}", "[" + w1 + "]{upper " + w2 + "}{len {lower {0}}}"},
		{"eq {neq {0} {1}}\ntab {0}+{1}\ncoalesce {1}\n", "{eq a a}{eq {0} b} {tab " + w1 + " " + w2 + "} {coalesce " + w1 + " " + w2 + "}", "{neq a a}{neq {0} b} " + w1 + "+" + w2 + " " + w2},
	}
	var cases []Case
	ctxs := []Ctx{{M: []string{"a", "4", ""}, K: map[string]string{}}, {M: []string{"", "x", "1"}, K: map[string]string{}}, {M: []string{}, K: map[string]string{}}}
	for _, c := range list {
		in := Input{Funcs: c.funcs, Tmpl: c.tmpl, Inl: c.inl, W: 3, Ctxs: ctxs}
		cc := compileCase(in)
		cases = append(cases, mkCase(in, cc.evalPlain(), true, []string{"funcs-file", "shadows-builtin"}))
	}
	for _, c := range []sc{
		{"format F({0})\nhf h{0}\nshow {format {0}}/{hf {0}}\n", "{format " + w1 + "} {show {0}} {hf 1234.5}", "F(" + w1 + ") {format {0}}/{hf {0}} h1234.5"},
		{"sumf {subf {0} {1}}\njson J{0}\nuse {sumf {0} 1}{json {1}}\n", "{sumf 5 2} {use {1} x}", "{subf 5 2} {sumf {1} 1}{json x}"},
	} {
		e := &EqIn{Kind: "lib", Funcs: c.funcs, Call: c.tmpl, Inlined: c.inl, Ctxs: ctxs}
		cases = append(cases, mkEqCase(e, runEq(e), []string{"funcs-file", "shadows-builtin"}))
	}
	// the binary: the inlined template runs without --funcs, so it is inlined completely
	e := &EqIn{Kind: "cli", Funcs: "upper <{0}>\nshout {upper {0}}!\n", Call: "{upper " + w1 + "} {shout {0}}", Inlined: "<" + w1 + "> <{0}>!", Data: []string{w2}}
	cases = append(cases, mkEqCase(e, runEq(e), []string{"cli", "funcs-file", "shadows-builtin"}))
	return cases
}


// numeric helpers around 2^53 .. 2^63, where an integer and a float64 reading of the same numeral differ:
// a constant operand written in the template vs the same numeral read from a group (a constant may get its
// own parse path), and a funcs-file function over its parameters called with the constant vs the inlined
// body; optimising and plain builder. Equality-only.
func (g *gen) bigNumCases() []Case {
	r := g.r
	bases := []int64{1 << 53, 1700000000000000000, 1<<62 + 12345, 9223372036854775000, 4611686018427387904, int64(r.Range(1, 1<<30)) << 31}
	var nums []string
	for _, b := range bases {
		for _, d := range []int64{-2, -1, 0, 1, 2} {
			nums = append(nums, fmt.Sprint(b+d), fmt.Sprint(-(b + d)))
		}
	}
	nums = append(nums, "9223372036854775807", "-9223372036854775808", "9007199254740993", "0", "1")
	pairs := func(n int) [][2]string { // (value, threshold): equal, or next to each other (same float64 above 2^53)
		var ps [][2]string
		for i := 0; i < n; i++ {
			k := r.Intn(len(bases) * 10)
			a := nums[k]
			var b string
			switch r.Intn(3) {
			case 0:
				b = a
			case 1:
				b = nums[(k+2)%(len(bases)*10)] // same sign, the next offset
			default:
				b = Pick(r, nums)
			}
			ps = append(ps, [2]string{a, b})
		}
		// the documented pair
		ps = append(ps, [2]string{"1700000000000000001", "1700000000000000000"}, [2]string{"9007199254740993", "9007199254740992"})
		return ps
	}
	var cases []Case
	for _, op := range []string{"gt", "gte", "lt", "lte", "eq", "neq", "maxi", "mini", "subi", "divi", "modi", "sumf"} {
		var alts [][]AltItem
		for _, p := range pairs(10) {
			ctx := Ctx{M: []string{p[0], p[1]}, K: map[string]string{}}
			alts = append(alts,
				[]AltItem{{"{" + op + " {0} " + p[1] + "}", ctx}, {"{" + op + " {0} {1}}", ctx}},  // constant on the right
				[]AltItem{{"{" + op + " " + p[0] + " {1}}", ctx}, {"{" + op + " {0} {1}}", ctx}}) // constant on the left
		}
		e := &EqIn{Kind: "alt", Alts: alts}
		cases = append(cases, mkEqCase(e, runEq(e), []string{"big-numbers", "big-const-vs-group", "big-op:" + op}))
	}
	// through funcs-file functions (and a later definition calling an earlier one)
	for k, op := range []string{"gt", "gte", "lt", "lte"} {
		p := pairs(3)[k%3]
		q := [2]string{"1700000000000000001", "1700000000000000000"}
		funcs := "cmp {" + op + " {0} {1}}\nboth {cmp {0} {1}}/{cmp {1} {0}}/{maxi {0} {1}}\n"
		call := "{cmp {0} " + p[1] + "} {cmp " + p[0] + " {1}} {both {0} " + q[1] + "} {cmp {2} " + q[1] + "}"
		inl := "{" + op + " {0} " + p[1] + "} {" + op + " " + p[0] + " {1}} {cmp {0} " + q[1] + "}/{cmp " + q[1] + " {0}}/{maxi {0} " + q[1] + "} {" + op + " {2} " + q[1] + "}"
		e := &EqIn{Kind: "lib", Funcs: funcs, Call: call, Inlined: inl,
			Ctxs: []Ctx{{M: []string{p[0], p[1], q[0]}, K: map[string]string{}}, {M: []string{q[0], q[1], q[1]}, K: map[string]string{}}, {M: []string{}, K: map[string]string{}}}}
		cases = append(cases, mkEqCase(e, runEq(e), []string{"big-numbers", "big-call-vs-inline", "big-op:" + op}))
	}
	// helpers that insist on constant parameters: the constant in a function body vs inline, big values
	{
		big := fmt.Sprint(bases[1])
		funcs := "bk {bucket {0} 1000000000000000000}|{clamp {0} -" + big + " " + big + "}|{round {0} 2}|{bucketrange {0} 4611686018427387904}\n"
		inl := "{bucket {0} 1000000000000000000}|{clamp {0} -" + big + " " + big + "}|{round {0} 2}|{bucketrange {0} 4611686018427387904}"
		e := &EqIn{Kind: "lib", Funcs: funcs, Call: "{bk {0}}", Inlined: inl,
			Ctxs: []Ctx{{M: []string{"1700000000000000001"}, K: map[string]string{}}, {M: []string{"-9007199254740993"}, K: map[string]string{}}, {M: []string{"9223372036854775807"}, K: map[string]string{}}, {M: []string{}, K: map[string]string{}}}}
		cases = append(cases, mkEqCase(e, runEq(e), []string{"big-numbers", "big-call-vs-inline"}))
	}
	return cases
}

// integer folds with two different error conditions among their operands (a zero divisor and a
// non-integer), the offending operand being a constant, a capture, or a (missing) function parameter:
// the marker must not depend on what is constant. Modelled cases.
func (g *gen) operandOrderCases() []Case {
	r := g.r
	bad := Pick(r, []string{"x", "1.5", `""`, "1e3", "--2"})
	type oc struct{ funcs, tmpl, inl string }
	list := []oc{
		{"d {divi {0} {1} {2}}\n", "{d 1 0 " + bad + "}", "{divi 1 0 " + bad + "}"},
		{"d {divi {0} {1} {2}}\n", "{d {0} 0 " + bad + "}", "{divi {0} 0 " + bad + "}"},
		{"d {divi {0} {1} {2}}\n", "{d 10 {1}}", `{divi 10 {1} ""}`},
		{"d {divi {0} {1} {2}}\n", "{d " + bad + " 0 1}", "{divi " + bad + " 0 1}"},
		{"m {modi {1} {0} 3}\n", "{m 0 " + bad + "}", "{modi " + bad + " 0 3}"},
		{"m {modi {1} {0} 3}\n", "{m 0}", `{modi "" 0 3}`},
		{"u_0 {divi {maxi {1} 5} 42}val={divi {len 10} {len {0}} {multi -10 {1} -1}}\n", "{u_0 {1}}",
			`{divi {maxi "" 5} 42}val={divi {len 10} {len {1}} {multi -10 "" -1}}`},
		{"", "{divi 1 0 " + bad + "} {divi {0} 0 " + bad + "} {modi 5 {1} " + bad + "}", ""},
		{"", "{divi " + bad + " 0 1} {modi {0} {1} " + bad + " 0} {sumi 1 " + bad + " {0}} {multi {0} " + bad + "}", ""},
		{"", "{divi 8 {sumi 1 -1} " + bad + "}{divi 8 {if 1 0 {0}} {1}}", ""},
		{"", "{divi {0} 0 2} {modi {1} 0} {divi {0} {sumi 1 -1} 3} {divi 7 {1} 0}", ""},
		{"z {divi {0} {1}}:{modi {0} 2 {1}}\n", "{z {0} 0}", "{divi {0} 0}:{modi {0} 2 0}"},
	}
	var cases []Case
	for _, o := range list {
		in := Input{Funcs: o.funcs, Tmpl: o.tmpl, Inl: o.inl, W: 2,
			Ctxs: []Ctx{{M: []string{"6", "0", "2"}, K: map[string]string{}}, {M: []string{"", "3"}, K: map[string]string{}}, {M: []string{"x", "x"}, K: map[string]string{}}, {M: []string{}, K: map[string]string{}}}}
		if in.Inl == "" {
			in.Inl = in.Tmpl
		}
		cc := compileCase(in)
		cases = append(cases, mkCase(in, cc.evalPlain(), true, []string{"operand-order", "kf:C10-int-operand-order"}))
	}
	return cases
}

// the rare binary: global switches x a funcs-file function whose body has an argument-free
// sub-expression depending on that switch
func (g *gen) eqCliCases() []Case {
	r := g.r
	bodies := []string{`{hi 1234567}`, `{hf 9876543.25}`, `{color red X}`, `{bar 5 10 10}`, `{bytesize 2048}`, `{load aux.txt}`, `{hi {0}000}`}
	switches := [][]string{{"--noformat"}, {"--nocolor"}, {"--color"}, {"--nounicode"}, {"--noload"}, {}, {"--noformat", "--nounicode", "--color"}}
	var cases []Case
	emit := func(sw []string, b string, envFuncs bool) {
		name := Pick(r, []string{"total", "fmt1", "u_x"})
		bodyText := b + Pick(r, []string{" {0}", "-{0}", "{0}"})
		argv := Pick(r, []string{"x", "42", "{0}"})
		phrase := name + " " + bodyText
		cont := false
		lines := g.layoutDef(phrase, &cont)
		e := &EqIn{Kind: "cli", Switches: sw, Funcs: strings.Join(lines, "\n") + "\n",
			Files: [][2]string{{"aux.txt", "file-content"}}, Call: "{" + name + " " + argv + "}",
			Inlined: strings.ReplaceAll(bodyText, "{0}", argv), Data: []string{"7"}, EnvFuncs: envFuncs}
		cases = append(cases, mkEqCase(e, runEq(e), []string{"cli", "cli:" + strings.Join(sw, "+")}))
	}
	// every switch with the sub-expression it governs, then a few random pairs
	emit(switches[0], bodies[0], false)
	emit(switches[0], bodies[1], false)
	emit(switches[2], bodies[2], false)
	emit(switches[1], bodies[2], false)
	emit(switches[3], bodies[3], false)
	emit(switches[4], bodies[5], false)
	emit(switches[6], bodies[0]+bodies[2]+bodies[3], false)
	emit(switches[0], bodies[6], true)
	for i := 0; i < 2; i++ {
		emit(Pick(r, switches), Pick(r, bodies), r.Chance(1, 3))
	}
	// a stateful stage inside a function, reached with a mixed constant + capture argument
	{
		e := &EqIn{Kind: "cli", Funcs: "ts {time {0}}\n", Call: `{ts "2020-01-01 {0}"}`, Inlined: `{time "2020-01-01 {0}"}`,
			Data: []string{fmt.Sprintf("%02d:%02d:00", r.Range(0, 23), r.Range(0, 59))}}
		cases = append(cases, mkEqCase(e, runEq(e), []string{"cli", "funcs-file-time", "kf:C10-time-probe-through-function"}))
	}
	return cases
}

// ---------------------------------------------------------------- generators
type scope struct {
	nMatch   int      // {0..nMatch-1} make sense
	keys     []string // named keys
	userFns  []ufn    // callable user functions
	inBinder bool
	inFor    bool // inside an @for sub-expression (no user functions, keys are tagged)
}
type ufn struct {
	name  string
	nargs int
	body  []*Node
}

type gen struct {
	r            *Rng
	usedKeyInFor bool
	strict       bool // inside a funcs-file body: no deliberately wrong arities / non-constant parameters
}

// which definitions of a functions file the real loader registers
func loadNames(text string) map[string]bool {
	loadMu.Lock()
	defer loadMu.Unlock()
	funclib.Additional = make(funclib.FunctionSet)
	set := map[string]bool{}
	func() {
		defer func() { recover() }()
		m, _ := funcfile.LoadDefinitions(funclib.NewKeyBuilder(), strings.NewReader(text), "gen")
		for k := range m {
			set[k] = true
		}
	}()
	return set
}

var words = []string{"a", "b", "ab", "abc", "x", "foo", "bar", "GET", "Post", "a.b", "k:v", "x_y", "1", "0", "7", "10", "42", "-3", "100", "1x", "007"}
var nums = []string{"0", "1", "2", "3", "5", "7", "10", "25", "42", "99", "100", "1000", "-1", "-7", "-10", "15", "64"}

func (g *gen) word() string { return Pick(g.r, words) }
func (g *gen) num() string  { return Pick(g.r, nums) }

func (g *gen) matchRef(sc scope) *Node {
	n := sc.nMatch
	if n < 1 {
		n = 1
	}
	i := int64(g.r.Intn(n + 1)) // sometimes one past the end
	if !sc.inBinder && g.r.Chance(1, 25) {
		i = -1
	}
	return mt(i)
}

// a leaf of the given kind: "n" numeric, "s" any string
func (g *gen) leaf(kind string, sc scope, dyn bool) []*Node {
	if dyn {
		if len(sc.keys) > 0 && g.r.Chance(1, 4) {
			if sc.inFor {
				g.usedKeyInFor = true
			}
			return one(ky(Pick(g.r, sc.keys)))
		}
		return one(g.matchRef(sc))
	}
	if kind == "n" {
		return lits(g.num())
	}
	if g.r.Chance(1, 10) {
		return nil // the empty argument
	}
	return lits(g.word())
}

type hspec struct {
	name     string
	min, max int
	kinds    string // per position: n s c(const int) C(const string) a(array) b(binder) ; last repeats
	res      string // n | s
}

var helpers = []hspec{
	{"coalesce", 1, 3, "s", "s"}, {"bucket", 2, 2, "nc", "n"}, {"bucketrange", 2, 2, "nc", "s"},
	{"clamp", 3, 3, "ncc", "s"}, {"expbucket", 1, 1, "n", "n"}, {"isint", 1, 1, "s", "s"},
	{"sumi", 2, 4, "n", "n"}, {"subi", 2, 3, "n", "n"}, {"multi", 2, 3, "n", "n"}, {"divi", 2, 3, "n", "n"},
	{"modi", 2, 2, "n", "n"}, {"maxi", 2, 3, "n", "n"}, {"mini", 2, 3, "n", "n"},
	{"if", 2, 3, "s", "s"}, {"switch", 2, 5, "s", "s"}, {"unless", 2, 2, "s", "s"},
	{"eq", 2, 3, "s", "s"}, {"neq", 2, 3, "s", "s"}, {"not", 1, 1, "s", "s"}, {"and", 1, 3, "s", "s"}, {"or", 1, 3, "s", "s"},
	{"len", 1, 1, "s", "n"}, {"like", 2, 2, "s", "s"}, {"prefix", 2, 2, "s", "s"}, {"suffix", 2, 2, "s", "s"},
	{"substr", 3, 3, "snn", "s"}, {"select", 2, 2, "sn", "s"}, {"upper", 1, 1, "s", "s"}, {"lower", 1, 1, "s", "s"},
	{"tab", 1, 3, "s", "s"}, {"$", 1, 3, "s", "s"}, {"@", 1, 4, "s", "a"}, {"hi", 1, 1, "n", "s"}, {"csv", 1, 3, "s", "s"},
	{"@len", 1, 1, "a", "n"}, {"@map", 2, 2, "ab", "a"}, {"@filter", 2, 2, "ab", "a"}, {"@reduce", 2, 3, "abC", "s"},
	{"@in", 2, 2, "sA", "s"}, {"@for", 3, 3, "f", "a"},
}

func kindAt(h hspec, i int) byte {
	if i < len(h.kinds) {
		return h.kinds[i]
	}
	return h.kinds[len(h.kinds)-1]
}

// an expression (argument) of the wanted kind
func (g *gen) expr(kind string, depth int, sc scope) []*Node {
	r := g.r
	if depth <= 0 || r.Chance(1, 3) {
		return g.leaf(kind, sc, r.Chance(1, 2))
	}
	// concatenation (strings only)
	if kind == "s" && r.Chance(1, 8) {
		return append(g.expr("s", depth-1, sc), g.expr("s", 0, sc)...)
	}
	// a user function
	if len(sc.userFns) > 0 && !sc.inFor && r.Chance(1, 4) {
		return one(g.userCall(depth, sc))
	}
	if kind == "a" {
		switch r.Intn(3) {
		case 0:
			return one(g.helperCall(helperByName("@"), depth, sc))
		case 1:
			return one(g.helperCall(helperByName("@map"), depth, sc))
		default:
			return one(g.helperCall(helperByName("@filter"), depth, sc))
		}
	}
	for tries := 0; tries < 20; tries++ {
		h := Pick(r, helpers)
		if h.name == "@for" && (depth < 2 || sc.inFor) {
			continue
		}
		if kind == "n" && h.res != "n" {
			continue
		}
		return one(g.helperCall(h, depth, sc))
	}
	return g.leaf(kind, sc, true)
}

func helperByName(n string) hspec {
	for _, h := range helpers {
		if h.name == n {
			return h
		}
	}
	panic(n)
}

func (g *gen) helperCall(h hspec, depth int, sc scope) *Node {
	r := g.r
	if h.name == "@for" {
		return g.forCall(depth, sc)
	}
	n := r.Range(h.min, h.max)
	if !g.strict && r.Chance(1, 30) { // wrong argument count
		n = r.Range(1, h.max+1)
	}
	c := &Node{Op: "call", S: h.name}
	for i := 0; i < n; i++ {
		switch kindAt(h, i) {
		case 'n':
			c.Args = append(c.Args, g.expr("n", depth-1, sc))
		case 's':
			c.Args = append(c.Args, g.expr("s", depth-1, sc))
		case 'a':
			c.Args = append(c.Args, g.expr("a", depth-1, sc))
		case 'c': // a constant int is required: literal, a constant sub-expression, rarely something else
			switch {
			case !g.strict && r.Chance(1, 12):
				c.Args = append(c.Args, g.expr("n", 1, sc)) // may be dynamic: <BAD-TYPE> / <CONST>
			case r.Chance(1, 5):
				c.Args = append(c.Args, one(call("sumi", lits(g.num()), lits(g.num())))) // constant-folded argument
			case r.Chance(1, 6):
				c.Args = append(c.Args, one(call("if", lits("1"), lits(g.num()), one(g.matchRef(sc))))) // constant through laziness
			case !g.strict && r.Chance(1, 15):
				c.Args = append(c.Args, lits(g.word()))
			default:
				c.Args = append(c.Args, lits(g.num()))
			}
		case 'C':
			if r.Chance(1, 6) {
				c.Args = append(c.Args, g.expr("s", 1, sc))
			} else {
				c.Args = append(c.Args, lits(g.word()))
			}
		case 'A':
			if !g.strict && r.Chance(1, 8) {
				c.Args = append(c.Args, g.expr("a", 1, sc))
			} else {
				c.Args = append(c.Args, one(call("@", lits(g.word()), lits(g.word()), lits(g.num()))))
			}
		case 'b':
			sub := sc
			sub.inBinder = true
			sub.nMatch = 1
			if h.name == "@reduce" {
				sub.nMatch = 2
			}
			c.Args = append(c.Args, g.expr("s", depth-1, sub))
		}
	}
	return c
}

// {@for <start> {neq {1} N} <incr over {0} {1}>}: N rounds
func (g *gen) forCall(depth int, sc scope) *Node {
	r := g.r
	sub := sc
	sub.inBinder, sub.inFor, sub.nMatch = true, true, 2
	if !r.Chance(1, 5) {
		sub.keys = nil // most loops do not look at named keys
	}
	cond := one(call("neq", one(mt(1)), lits(fmt.Sprint(r.Intn(5)))))
	if r.Chance(1, 3) {
		cond = one(call("and", cond, g.expr("s", 1, sub)))
	}
	var incr []*Node
	switch r.Intn(3) {
	case 0:
		incr = one(call("sumi", one(mt(0)), lits(g.num())))
	case 1:
		incr = one(call("multi", one(mt(0)), lits("2")))
	default:
		incr = append(lits("v"), g.expr("n", 1, sub)...)
	}
	return call("@for", lits(g.num()), cond, incr)
}

func (g *gen) userCall(depth int, sc scope) *Node {
	r := g.r
	f := Pick(r, sc.userFns)
	n := f.nargs
	switch {
	case r.Chance(1, 5) && n > 1:
		n-- // a missing argument is empty
	case r.Chance(1, 8):
		n++
	}
	if n < 1 {
		n = 1
	}
	c := &Node{Op: "call", S: f.name}
	for i := 0; i < n; i++ {
		k := "s"
		if r.Bool() {
			k = "n"
		}
		c.Args = append(c.Args, g.expr(k, depth-1, sc))
	}
	return c
}

// a top-level template: literal text (with spaces) around expressions
func (g *gen) template(depth int, sc scope, body bool) []*Node {
	r := g.r
	var t []*Node
	n := r.Range(1, 3)
	for i := 0; i < n; i++ {
		if r.Chance(1, 3) {
			if body { // bodies are spliced into argument positions when inlined: no white space outside braces
				t = append(t, lit(Pick(r, []string{"x", "-", "val=", ":", ",", "p."})))
			} else {
				t = append(t, lit(Pick(r, []string{" ", "x ", " - ", "a b", "val=", ":", ", "})))
			}
		}
		k := "s"
		if r.Chance(1, 3) {
			k = "n"
		}
		e := g.expr(k, depth, sc)
		if len(e) == 0 {
			e = lits(g.word())
		}
		t = append(t, e...)
	}
	if body { // the loader trims the phrase: a body neither starts nor ends with white space
		if t[0].Op == "lit" && strings.TrimSpace(t[0].S) != t[0].S || t[0].Op == "lit" && t[0].S == "" {
			t[0] = lit("b" + strings.TrimSpace(t[0].S))
		}
		l := len(t) - 1
		if t[l].Op == "lit" && strings.TrimSpace(t[l].S) != t[l].S {
			t[l] = lit(strings.TrimSpace(t[l].S) + "e")
		}
	}
	return t
}

// ---- functions files
func (g *gen) junkLine() string {
	r := g.r
	ind := Pick(r, []string{"", " ", "\t", "   "})
	switch r.Intn(4) {
	case 0:
		return ind
	case 1:
		return ind + "# " + Pick(r, []string{"comment", "double {sumi {0} {0}}", "trailing backslash \\", "x # y", ""})
	case 2:
		return "#" + Pick(r, []string{"", "!funcs", " a b c \\"})
	}
	return ""
}

func (g *gen) layoutDef(phrase string, cont *bool) []string {
	r := g.r
	var lines []string
	for r.Chance(1, 3) {
		lines = append(lines, g.junkLine())
	}
	// cut points: after a space (the documented way), sometimes anywhere before a solid character
	var cuts []int
	for p := 1; p < len(phrase); p++ {
		solid := phrase[p] != ' ' && phrase[p] != '\t'
		if !solid {
			continue
		}
		if phrase[p-1] == ' ' && r.Chance(1, 3) {
			cuts = append(cuts, p)
		} else if phrase[p-1] != ' ' && r.Chance(1, 40) {
			cuts = append(cuts, p)
		}
	}
	if r.Chance(1, 3) {
		cuts = nil
	}
	prev := 0
	emit := func(piece string, c bool) {
		l := Pick(r, []string{"", "", "  ", "\t", "    "}) + piece
		if c {
			l += "\\"
		}
		l += Pick(r, []string{"", "", " ", "\t ", "  "})
		if r.Chance(1, 4) {
			l += "#" + Pick(r, []string{" note", "", "{0}", " \\"})
		}
		lines = append(lines, l)
	}
	for _, p := range cuts {
		*cont = true
		emit(phrase[prev:p], true)
		prev = p
		for r.Chance(1, 5) {
			lines = append(lines, g.junkLine())
		}
	}
	emit(phrase[prev:], false)
	return lines
}

type genFile struct {
	text    string
	fns     []ufn
	cont    bool
	bad     bool // contains deliberately malformed definitions (no inlining comparison)
}

func (g *gen) funcsFile(keys []string, timedBodies [][]*Node) genFile {
	r := g.r
	var gf genFile
	var lines []string
	n := r.Range(1, 3)
	if timedBodies != nil {
		n = len(timedBodies)
	}
	for i := 0; i < n; i++ {
		name := fmt.Sprintf("%s%d", Pick(r, []string{"f", "fn", "my-", "u_"}), i)
		nargs := r.Range(1, 3)
		sc := scope{nMatch: nargs, keys: keys, userFns: gf.fns}
		var body []*Node
		if timedBodies != nil {
			body = timedBodies[i]
		} else {
			g.strict = r.Chance(9, 10)
			body = g.template(2, sc, true)
			g.strict = false
		}
		phrase := name + " " + printSeq(body)
		if timedBodies == nil && r.Chance(1, 14) {
			gf.bad = true
			switch r.Intn(4) {
			case 0:
				phrase = name // missing expression
			case 1:
				phrase = name + " {sumi {0}" // unterminated
			case 2:
				phrase = name + " {nosuchfn {0} 1}"
			default:
				phrase = name + " {bucket {1} {0}}" // constructor error: bucket size not constant
			}
			lines = append(lines, g.layoutDef(phrase, &gf.cont)...)
			continue
		}
		lines = append(lines, g.layoutDef(phrase, &gf.cont)...)
		gf.fns = append(gf.fns, ufn{name, nargs, body})
	}
	for r.Chance(1, 3) {
		lines = append(lines, g.junkLine())
	}
	eol := "\n"
	if r.Chance(1, 6) {
		eol = "\r\n"
	}
	gf.text = strings.Join(lines, eol)
	if !r.Chance(1, 4) {
		gf.text += eol
	}
	if gf.text == "" {
		gf.text = "\n"
	}
	return gf
}

func (g *gen) contexts(keys []string) []Ctx {
	r := g.r
	var cs []Ctx
	n := r.Range(1, 3)
	vals := []string{"", "0", "1", "5", "12", "25", "100", "-4", "7", "abc", "a b", "GET", " ", "x", "1x", "foo bar baz", "a\x00b\x00c", "3"}
	for i := 0; i < n; i++ {
		c := Ctx{K: map[string]string{}}
		m := r.Intn(4)
		for j := 0; j < m; j++ {
			c.M = append(c.M, Pick(r, vals))
		}
		if c.M == nil {
			c.M = []string{}
		}
		for _, k := range keys {
			if r.Chance(2, 3) {
				c.K[k] = Pick(r, vals)
			}
		}
		cs = append(cs, c)
	}
	cs = append(cs, Ctx{M: []string{}, K: map[string]string{}}) // the all-empty context
	return cs
}

func classify(t []*Node, fns []ufn) (tags []string, nontrivial bool, timeInSub bool, forKey bool, constParam bool) {
	ordKf := false
	set := map[string]bool{}
	bodies := map[string][]*Node{}
	for _, f := range fns {
		bodies[f.name] = f.body
	}
	var visit func(t []*Node, inSub bool)
	visit = func(t []*Node, inSub bool) {
		walk(t, false, func(n *Node, inB bool) {
			if n.Op != "call" {
				return
			}
			if b, ok := bodies[n.S]; ok {
				set["userfn"] = true
				visit(b, true)
				return
			}
			if strings.HasPrefix(n.S, "@") && n.S != "@" && n.S != "@len" && n.S != "@in" {
				set["binder"] = true
			}
			if n.S == "time" && len(n.Args) > 0 {
				w := strings.ToLower(printSeq(n.Args[0]))
				if (w == "live" || w == "delta") && (inSub || inB) {
					timeInSub = true
				}
			}
			if n.S == "divi" || n.S == "modi" || n.S == "sumi" || n.S == "subi" || n.S == "multi" || n.S == "maxi" || n.S == "mini" {
				// an integer fold (divi / modi: two different markers; the others: look-ups before the marker) with an operand that is a constant other than an integer literal, or that
				// mentions a parameter of the enclosing funcs-file function (constant or missing at the call)
				for _, a := range n.Args {
					dyn, lit := false, true
					walk(a, false, func(m *Node, _ bool) {
						if m.Op == "m" || m.Op == "k" {
							dyn = true
						}
						if m.Op != "lit" {
							lit = false
						}
					})
					isInt := false
					if lit {
						var v int64
						_, err := fmt.Sscanf(printSeq(a), "%d", &v)
						isInt = err == nil && fmt.Sprint(v) == strings.TrimPrefix(printSeq(a), "+")
					}
					if (!dyn && !isInt) || (inSub && dyn) {
						ordKf = true
					}
				}
			}
			if n.S == "@reduce" && len(n.Args) == 3 && inSub {
				walk(n.Args[2], false, func(m *Node, _ bool) {
					if m.Op == "m" {
						constParam = true // the initial value depends on an argument of the enclosing function
					}
				})
			}
			if n.S == "@for" {
				for j := 1; j < len(n.Args) && j < 3; j++ {
					walk(n.Args[j], true, func(m *Node, _ bool) {
						if m.Op == "k" {
							forKey = true
						}
					})
				}
			}
			konst, dyn := 0, 0
			for _, a := range n.Args {
				d := false
				walk(a, false, func(m *Node, _ bool) {
					if m.Op == "m" || m.Op == "k" {
						d = true
					}
				})
				if d {
					dyn++
				} else {
					konst++
				}
			}
			switch {
			case konst > 0 && dyn > 0:
				set["mixed-args"] = true
			case konst > 0:
				set["const-args"] = true
			default:
				set["dynamic-args"] = true
			}
		})
	}
	visit(t, false)
	for k := range set {
		tags = append(tags, k)
	}
	sort.Strings(tags)
	if ordKf {
		tags = append(tags, "kf:C10-int-operand-order")
	}
	nontrivial = set["mixed-args"] || set["userfn"] || set["binder"]
	return
}

func (g *gen) plainCase() (Input, []string, bool) {
	r := g.r
	keys := []string{"k1", "src", "line"}[:r.Intn(4)]
	in := Input{W: r.Range(1, 8)}
	var gf genFile
	if r.Chance(3, 5) {
		gf = g.funcsFile(keys, nil)
		in.Funcs = gf.text
	}
	sc := scope{nMatch: 3, keys: keys, userFns: gf.fns}
	var t []*Node
	if len(gf.fns) > 0 && r.Chance(2, 3) { // make sure a user function is called at the top
		t = append(t, g.userCall(2, sc))
		if r.Bool() {
			t = append(t, g.template(2, sc, false)...)
		}
	} else {
		t = g.template(3, sc, false)
	}
	in.Tmpl = printSeq(t)
	in.Inl = in.Tmpl
	bodies := map[string][]*Node{}
	for _, f := range gf.fns {
		bodies[f.name] = f.body
	}
	if len(bodies) > 0 && !gf.bad {
		// only what the loader really registered can be read as its body
		reg := loadNames(in.Funcs)
		for k := range bodies {
			if !reg[k] {
				delete(bodies, k)
			}
		}
		in.Inl = printSeq(inlineSeq(t, bodies))
	}
	in.Ctxs = g.contexts(keys)
	tags, nt, _, forKey, constParam := classify(t, gf.fns)
	if constParam {
		tags = append(tags, "kf:C10-const-param-in-function")
	}
	if in.Funcs != "" {
		tags = append(tags, "funcs-file")
		if gf.cont {
			tags = append(tags, "funcs-continuation")
		}
		if gf.bad {
			tags = append(tags, "funcs-malformed")
			nt = true
		}
	}
	if in.W > 1 {
		tags = append(tags, "workers>1")
	}
	if forKey {
		tags = append(tags, "for-with-key") // was defect C17-for-parent-context (fixed in /repo)
	}
	return in, tags, nt
}

func (g *gen) timedCase() (Input, []string) {
	r := g.r
	tw := func() []*Node {
		return lits(Pick(r, []string{"now", "live", "delta", "NOW", "Live", "DELTA", "live", "delta"}))
	}
	tm := func() *Node { return call("time", tw()) }
	in := Input{Timed: true, W: 1}
	var t []*Node
	var fns []ufn
	switch r.Intn(8) {
	case 0:
		t = one(tm())
	case 1:
		t = []*Node{lit("t="), call("sumi", one(tm()), lits(g.num()))}
	case 2:
		t = one(call("if", one(mt(0)), one(tm()), one(tm())))
	case 3:
		t = one(call("coalesce", one(mt(1)), one(tm())))
	case 4, 5: // inside a funcs-file function
		body := one(tm())
		if r.Bool() {
			body = one(call("sumi", one(tm()), one(mt(0))))
		}
		gf := g.funcsFile(nil, [][]*Node{body})
		in.Funcs, fns = gf.text, gf.fns
		t = one(call(gf.fns[0].name, lits(g.num())))
	case 6: // inside a binder
		t = one(call("@map", one(call("@", lits("a"), lits("b"))), one(tm())))
	default:
		t = []*Node{tm(), lit(" "), tm()}
	}
	in.Tmpl = printSeq(t)
	in.Inl = in.Tmpl
	in.Ctxs = []Ctx{{M: []string{"1", "2"}, K: map[string]string{}}, {M: []string{}, K: map[string]string{}}}
	tags := []string{"timed"}
	_, _, inSub, _, _ := classify(t, fns)
	if inSub {
		tags = append(tags, "kf:C10-live-frozen-in-subcontext")
	}
	return in, tags
}

func fixedCases() []Input {
	e := []Ctx{{M: []string{"25", "abc", "7"}, K: map[string]string{"k1": "v1"}}, {M: []string{}, K: map[string]string{}}}
	mk := func(funcs, tmpl, inl string) Input { return Input{Funcs: funcs, Tmpl: tmpl, Inl: inl, Ctxs: e, W: 4} }
	return []Input{
		mk("", "{sumi 1 2}{0} {sumi {0} 2} x", "{sumi 1 2}{0} {sumi {0} 2} x"),
		mk("", "{bucket {0} {if 1 10 {1}}} {if 1 a {0}}", "{bucket {0} {if 1 10 {1}}} {if 1 a {0}}"),
		mk("", "{sumi {0} x} {sumi 1 x} {clamp {0} a 5}", "{sumi {0} x} {sumi 1 x} {clamp {0} a 5}"),
		mk("# test func\ndouble {sumi {0} {0}}\n\n# Blank space above\nmultipline {switch \\\n    {eq {0} a} isa \\\n    {eq {0} b} isb \\\n}\n\nmultipline2 {switch \\\n    {eq {0} a} isa \\ #inline\n\n    #Blank above\n    {eq {0} b} isb \\\n    # else\n    b \\\n}\n",
			"{double {0}} {multipline a} {multipline2 {1}}", "{sumi {0} {0}} {switch {eq a a} isa {eq a b} isb } {switch {eq {1} a} isa {eq {1} b} isb b }"),
		mk("keyed {k1}:{0}:{1}\nwrap {keyed {1} {0}}-{@map {@ p q} {0}{k1}}\n", "{wrap {0} {1}} {keyed x}", "{keyed {1} {0}}-{@map {@ p q} {0}{k1}} {k1}:x:"),
	}
}

func timed(name string, f func() []Case) []Case {
	t0 := time.Now()
	cs := f()
	if os.Getenv("VERIF_C10_TIMING") != "" {
		fmt.Fprintf(os.Stderr, "%-20s %3d cases %6.2fs\n", name, len(cs), time.Since(t0).Seconds())
	}
	return cs
}

func c10Gen(r *Rng, n int, tier string) []Case {
	logger.DeferLogs()
	g := &gen{r: r}
	var cases []Case
	for _, in := range fixedCases() {
		cc := compileCase(in)
		cases = append(cases, mkCase(in, cc.evalPlain(), true, []string{"fixed"}))
	}
	nTimed := 12
	if tier != "quick" {
		nTimed = 40
	}
	cases = append(cases, timed("poolCases", func() []Case { return g.poolCases() })...)
	cases = append(cases, timed("whitespaceCases", func() []Case { return g.whitespaceCases() })...)
	cases = append(cases, timed("operandOrderCases", func() []Case { return g.operandOrderCases() })...)
	cases = append(cases, timed("shadowCases", func() []Case { return g.shadowCases() })...)
	cases = append(cases, timed("selfNestedCases", func() []Case { return g.selfNestedCases() })...)
	cases = append(cases, timed("eqLibCases", func() []Case { return g.eqLibCases() })...)
	cases = append(cases, timed("eqSeqCases", func() []Case { return g.eqSeqCases() })...)
	cases = append(cases, timed("eqMathCases", func() []Case { return g.eqMathCases() })...)
	cases = append(cases, timed("floatFoldCases", func() []Case { return g.floatFoldCases() })...)
	cases = append(cases, timed("constLoopCases", func() []Case { return g.constLoopCases() })...)
	cases = append(cases, timed("bigNumCases", func() []Case { return g.bigNumCases() })...)
	cases = append(cases, timed("eqFnTimeCases", func() []Case { return g.eqFnTimeCases() })...)
	cases = append(cases, timed("eqCliCases", func() []Case { return g.eqCliCases() })...)
	if rareBin != "" {
		defer os.Remove(rareBin)
	}
	for len(cases) < n-nTimed {
		in, tags, nt := g.plainCase()
		cc := compileCase(in)
		cases = append(cases, mkCase(in, cc.evalPlain(), nt, tags))
	}
	var ccs []*compiledCase
	var ttags [][]string
	for i := 0; i < nTimed; i++ {
		in, tags := g.timedCase()
		cc := compileCase(in)
		ccs = append(ccs, &cc)
		ttags = append(ttags, tags)
	}
	for i, out := range evalTimed(ccs) {
		cases = append(cases, mkCase(ccs[i].in, out, true, ttags[i]))
	}
	return cases
}

func main() {
	Main(&Prop{
		Name:   "C10",
		Header: "From Coq Require Import List NArith ZArith Bool String.\nFrom RareV Require Import Corr.C10Case.\nImport ListNotations.\nOpen Scope string_scope.\n",
		Rule: "fixed cases (the repository's example.funcfile, laziness making an argument constant, typed-argument markers, a body passing keys and binders through) then seeded random cases: " +
			"templates of depth <= 3 over 40 modelled helpers (scalar, logic, string, integer folds with typed arguments, array binders @map/@filter/@reduce/@for, @in) with literal, match-group, named-key and nested arguments, occasional wrong arities and non-constant 'constant' parameters; " +
			"3 of 5 cases load a generated functions file of 1-3 definitions (later ones calling earlier ones; bodies using {0}..{2}, keys, binders) under a random layout (comment and blank lines, trailing comments, indentation, continuation cuts after spaces and elsewhere, CRLF, missing final newline; 1 in 14 definitions malformed) through funcfile.LoadDefinitions + funclib.TryAddFunctions, and call the functions with fewer / exactly / more arguments than the body uses; the harness also prints the template with every call replaced by its substituted body; " +
			"every template is compiled by funclib.NewKeyBuilderEx(true) and (false) and evaluated on 1-3 generated contexts plus the all-empty context with a look-up-counting context, then 3 rounds from each of 1-8 goroutines sharing the compiled expressions; " +
			"timed cases ({time now|live|delta} plain, nested, inside a funcs-file function, inside @map) are evaluated twice 1.1 s apart and only 'did the value change' is observed. " +
			"equality-only cases (no model prediction): 30 templates over helpers that are not modelled (time with auto-detected / given formats, buckettime, timeformat, durations, floats, format, @split/@join/@slice/@select/@range, paths, json, !, byte sizes, repeat/bar/color, lookup/load) with constant, dynamic and mixed text in the arguments and seeded dates/numbers: optimising builder = plain builder on every context, the all-empty one last; " +
			"7 pool cases (the binders' sub-context pool is package-level state): 2 templates with an @for whose condition is truthy on the all-empty probe context (the optimiser's probe runs 1,000,000 rounds to <INF> at compile time) followed / preceded by nested binders, optimising = plain; then 4 modelled nested-binder templates (@map/@filter/@reduce nested two deep, the outer element used after the inner binder) evaluated after those compiles and from 3-8 goroutines; 1 through the rare binary (optimised vs --no-optimize in separate processes); all random cases of the run come after these compiles too; " +
			"12 operand-order cases (divi / modi with a zero divisor and a non-integer operand, the offending operand a constant, a capture, or a present / missing parameter of a funcs-file function; sumi / multi for comparison), modelled: call = inlined body, optimising = plain; " +
			"9 functions-file cases with significant white space (runs of 2-3 blanks and tabs in literal text and inside quoted arguments, leading blanks after the name, blanks before a continuation backslash, a tab instead of the blank after the name), modelled: loader result, call and inlined body byte for byte; " +
			"14 formula cases ({! ..}, one per operator * & && || + - / | % ^ == < >= <<): a constant operand written in the formula (0 1 2 0.5 (3-3) (0-1) (2*0) (1||0), on either side, bare or inside a larger formula) vs the same constant read from a group, for values of the variable among 5 -3 0 2.5 -0 empty missing text inf -inf nan 1e400, optimising and plain builder: all equal (compile-time folding must give the run-time value); " +
			"7 self-nested cases (a funcs-file function called inside each of its own argument positions to depth 2, in its last position to depth 3, and in every position at once; bodies over format, tab, if, sumi, sumf, @map): call vs completely inlined body, optimising and plain builder, then 20 rounds from 4 goroutines; " +
			"8 builtin-shadowing cases (funcs-file definitions named upper, sumi, if, len, lower, eq, tab, coalesce - modelled - and format, hf, sumf, json - equality-only - used directly and by a later definition, registered through funclib; one through the rare binary): the file's definition wins, call = inlined body; " +
			"17 big-number cases (gt gte lt lte eq neq maxi mini subi divi modi sumf; values and thresholds 2^53, 1.7e18, 2^62, near 2^63 and a seeded base, each with offsets -2..2 and negated, MaxInt64 / MinInt64): per helper 24 pairs 'constant operand written in the template (left or right) vs the same numeral read from a group'; 4 funcs-file cases (a comparison over its parameters, a later definition calling it, called with the constant threshold) and one with bucket / clamp / round / bucketrange constants inside a body, vs the inlined body; optimising and plain builder, all equal; " +
			"9 constant-loop cases (an @for that never reads the context, 9,999 / 10,001 / 20,000 / 65,537 / 250,000 rounds and two seeded sizes, condition on the value or on the round counter, reduced by @len, one also by @select -1): directly, and inside funcs-file functions (constant loop next to a parameter, start value passed as a constant argument) vs the inlined body; optimising and plain builder, all equal; " +
			"20 float-fold cases (sumf subf multf divf, 3-5 operands, constants first / last / interleaved / single / random, values among 0.1 0.2 0.3 0.7 1e16 -1e16 1 3 10 1e-17 1e308 0.5 -0.1 1e-320 where re-association changes the result): per operator one case of 15 pairs 'constant written in the template vs the same constant read from a group' and 4 cases of a funcs-file function over its parameters called with constant and mixed arguments vs the inlined body; optimising and plain builder, all equal; " +
			"18 sequence cases (time / buckettime / timeformat / timeattr with explicit format and time-zone arguments, named formats, a constant prefix plus a capture, a named key, nested in sumi/timeformat, durations, floats/json/format; 3 with the auto-detected layout): three evaluation sequences per template on ONE compiled expression - the all-empty context (the optimiser's probe value) first, unparseable values, the same value on consecutive evaluations, a bad value first, a seeded shuffle - step by step: optimising = plain = a fresh plain compile = a fresh optimising compile of that step (for the auto-detected layout, which is remembered by design, only optimising = plain); " +
			"11 funcs-file cases whose body reaches time/buckettime (auto-detected layout, remembered by the stage), timeformat, timeattr, duration through {i}, a later definition calling an earlier one, called with arguments mixing constant text and captures: call (optimising, plain) = inlined body (optimising, plain) on every context, every builder compiled freshly; " +
			"11 command-line cases: the rare binary built from $VERIF_REPO, a generated functions file (random layout) whose body has an argument-free sub-expression governed by a global switch ({hi ..} {hf ..} --noformat, {color ..} --color/--nocolor, {bar ..} --nounicode, {load ..} --noload), `rare <switch> --funcs F expression <call>`, the same with --no-optimize, and `rare <switch> expression <inlined body>` with and without --no-optimize (one case through RARE_FUNC_FILES): the four stdout+exit-code strings must be equal. " +
			"distinct = distinct (functions file, template, contexts); non-trivial = a helper call mixing constant and dynamic arguments, a funcs-file call, a binder, a malformed functions file or a timed case.",
		Gen: c10Gen,
		Replay: func(d json.RawMessage) (Case, error) {
			logger.DeferLogs()
			var doc struct {
				Input Input `json:"input"`
			}
			if err := json.Unmarshal(d, &doc); err != nil {
				return Case{}, err
			}
			in := doc.Input
			if in.Eq != nil {
				return mkEqCase(in.Eq, runEq(in.Eq), []string{"replay"}), nil
			}
			cc := compileCase(in)
			if in.Timed {
				return mkCase(in, evalTimed([]*compiledCase{&cc})[0], true, []string{"replay"}), nil
			}
			return mkCase(in, cc.evalPlain(), true, []string{"replay"}), nil
		},
		Shard: 40,
	})
}
