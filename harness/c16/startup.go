package main

// C16 start-up cases: a FRESHLY compiled regexp with several named groups is handed to an extractor
// with 8 workers; every worker calls CreateInstance()/SubexpNameTable() at the same time.  Repeated
// hundreds of times per run (child process), and a smaller number of times in a binary built with
// the race detector (bin/C16race, GORACE halt_on_error): every text any worker ever renders for a
// line must be the one text of that line (the model's view; also the single-worker rendering).

import (
	"encoding/hex"
	"encoding/json"
	"fmt"
	"os"
	"path/filepath"
	"sort"
	"strconv"
	"strings"
	"time"

	"rare/pkg/extractor"
	"rare/pkg/matchers"
	"rare/pkg/matchers/fastregex"
	. "verifh/lib"
)

type startupIn struct {
	Pattern string   `json:"pattern_hex"`
	Lines   []string `json:"lines_hex"`
	Workers int      `json:"workers"`
	Reps    int      `json:"repetitions"`
	Batches int      `json:"batches"`
}

func startupChildMain() {
	var in startupIn
	if err := json.NewDecoder(os.Stdin).Decode(&in); err != nil {
		fmt.Fprintln(os.Stderr, "startupchild: bad input", err)
		os.Exit(2)
	}
	index := map[string]int{}
	for i, l := range in.Lines {
		index[unhexs(l)] = i
	}
	sets := [3]map[int]map[string]bool{{}, {}, {}}
	var notes []string
	for rep := 0; rep < in.Reps; rep++ {
		for vi, expr := range viewExprs {
			workers := in.Workers
			if rep == 0 {
				workers = 1 // the single-worker rendering
			}
			re, err := fastregex.CompileEx(unhexs(in.Pattern), false) // fresh for every start-up
			if err != nil {
				fmt.Fprintln(os.Stderr, "startupchild: pattern", err)
				os.Exit(2)
			}
			ch := make(chan extractor.InputBatch, in.Batches+1)
			for b := 0; b < in.Batches; b++ {
				ch <- extractor.InputBatch{Batch: []extractor.BString{extractor.BString(unhexs(in.Lines[b%len(in.Lines)]))},
					Source: "startup", BatchStart: uint64(b + 1)}
			}
			close(ch)
			got := 0
			outcome, pv := Guarded(20*time.Second, func() {
				ex, err := extractor.New(ch, &extractor.Config{Matcher: matchers.ToFactory(re), Extract: expr, Workers: workers})
				if err != nil {
					notes = append(notes, err.Error())
					return
				}
				for ms := range ex.ReadChan() {
					for _, m := range ms {
						li, ok := index[m.Line]
						if !ok {
							continue
						}
						if sets[vi][li] == nil {
							sets[vi][li] = map[string]bool{}
						}
						sets[vi][li][m.Extracted] = true
						got++
					}
				}
			})
			if outcome != "ok" {
				notes = append(notes, fmt.Sprintf("%s %v", outcome, pv))
			} else if got != in.Batches && len(notes) < 3 {
				notes = append(notes, fmt.Sprintf("%d matches for %d lines", got, in.Batches))
			}
		}
	}
	w := seqWire{Note: strings.Join(notes, "; ")}
	for vi := range sets {
		w.Texts[vi] = map[string][]string{}
		for li, ts := range sets[vi] {
			var l []string
			for t := range ts {
				l = append(l, hex.EncodeToString([]byte(t)))
			}
			sort.Strings(l)
			w.Texts[vi][strconv.Itoa(li)] = l
		}
	}
	json.NewEncoder(os.Stdout).Encode(w)
}

type startupResult struct {
	texts [3]map[int][]string
	note  string
	dead  bool
}

var startupCache = map[string]*startupResult{}

func runStartupScenario(in c16In) *startupResult {
	sc := in.Scenario
	si := startupIn{Pattern: in.Pattern, Lines: sc.Sources[0], Workers: sc.Workers, Reps: sc.Reps, Batches: sc.Total}
	kb, _ := json.Marshal(si)
	if r, ok := startupCache[string(kb)]; ok {
		return r
	}
	res := &startupResult{}
	startupCache[string(kb)] = res
	sets := [3]map[int]map[string]bool{{}, {}, {}}
	merge := func(out []byte) {
		var w seqWire
		if err := json.Unmarshal(out, &w); err != nil {
			res.note += " unreadable result: " + err.Error()
			res.dead = true
			return
		}
		if w.Note != "" {
			res.note += " " + w.Note
		}
		for vi := range w.Texts {
			for k, ts := range w.Texts[vi] {
				li, _ := strconv.Atoi(k)
				if sets[vi][li] == nil {
					sets[vi][li] = map[string]bool{}
				}
				for _, t := range ts {
					sets[vi][li][unhexs(t)] = true
				}
			}
		}
	}
	out, errNote := runChild("startupchild", si)
	if errNote != "" {
		res.note, res.dead = errNote, true
	} else {
		merge(out)
	}
	// the same under the race detector (fewer start-ups: the detector does not need the interleaving to bite)
	if exe, err := os.Executable(); err == nil && sc.RaceReps > 0 {
		race := filepath.Join(filepath.Dir(exe), "C16race")
		if _, err := os.Stat(race); err == nil {
			rs := si
			rs.Reps = sc.RaceReps
			out, errNote := runChildBin(race, "startupchild", rs, []string{"GORACE=halt_on_error=1 exitcode=66"})
			if errNote != "" {
				res.note += " [race detector build] " + errNote
				res.dead = true
			} else {
				merge(out)
			}
		} else {
			res.note += " (no race-detector build of the harness: bin/C16race missing)"
		}
	}
	for vi := range sets {
		res.texts[vi] = map[int][]string{}
		for li, ts := range sets[vi] {
			for t := range ts {
				res.texts[vi][li] = append(res.texts[vi][li], t)
			}
			sort.Strings(res.texts[vi][li])
		}
	}
	return res
}

func startupTexts(in c16In) ([3][]string, string) {
	var out [3][]string
	res := runStartupScenario(in)
	if res.dead {
		return out, strings.TrimSpace(res.note)
	}
	for i, l := range in.Scenario.Sources[0] {
		if l == in.Line {
			for vi := range out {
				out[vi] = res.texts[vi][i]
			}
		}
	}
	return out, strings.TrimSpace(res.note)
}

// 4..8 named groups (and some unnamed ones) over space-separated fields; 3..4 lines
func genStartup(r *Rng) []c16In {
	k := r.Range(4, 8)
	var pat strings.Builder
	pat.WriteString(`^`)
	used := map[string]bool{}
	fields := 0
	for named := 0; named < k; {
		if fields > 0 {
			pat.WriteString(` `)
		}
		fields++
		if r.Chance(1, 4) {
			pat.WriteString(`(\S*)`)
			continue
		}
		name := Pick(r, wordNames)
		if used[name] {
			name = fmt.Sprintf("g%d", named)
		}
		used[name] = true
		pat.WriteString(`(?P<` + name + `>\S*)`)
		named++
	}
	pat.WriteString(`$`)
	sc := &c16Scenario{Kind: "startup", Workers: 8, Reps: 300, RaceReps: 6, Total: 24}
	var lines []string
	for len(lines) < r.Range(3, 4) {
		parts := make([]string, fields)
		for i := range parts {
			t := genText(r)
			t = strings.Map(func(c rune) rune {
				if c == ' ' || c == '\t' || c == '\n' || c == '\v' || c == '\f' || c == '\r' {
					return '_'
				}
				return c
			}, string([]rune(t))) // \S is rune-wise: keep these lines valid UTF-8
			parts[i] = strings.ReplaceAll(strings.ReplaceAll(t, "\u0085", "_"), " ", "_")
		}
		lines = append(lines, hex.EncodeToString([]byte(strings.Join(parts, " "))))
	}
	sc.Sources = [][]string{lines}
	var out []c16In
	seen := map[string]bool{}
	for _, l := range lines {
		if seen[l] {
			continue
		}
		seen[l] = true
		in, ok := fromMatcher("startup", pat.String(), []byte(unhexs(l)))
		if !ok {
			continue
		}
		in.Scenario = sc
		out = append(out, in)
	}
	return out
}
