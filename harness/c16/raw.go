package main

// Every evaluation of the code under test happens in a child process of this binary, so that a
// crash the harness cannot recover from (a panic in a worker goroutine of the extractor, a fatal
// stack overflow) is the observation "no text" of ONE case instead of the death of the harness.
// Single-match and `rare expression` cases are evaluated by a batch child (`rawbatch`): inputs as
// JSON lines on stdin, one result line per input on stdout.  When the child dies, the first input
// without a result line is the one that crashed; the batch is restarted behind it.

import (
	"bufio"
	"bytes"
	"context"
	"encoding/hex"
	"encoding/json"
	"fmt"
	"os"
	"os/exec"
	"strings"
	"time"
)

type rawResult struct {
	Texts [3][]string `json:"texts_hex"`
	Note  string      `json:"note"`
}

var rawCache = map[string]*rawResult{}

func needsRaw(in c16In) bool {
	switch in.Via {
	case "scripted", "regex", "dissect", "cli":
		return true
	}
	return false
}

func rawKey(in c16In) string {
	kb, _ := json.Marshal(in)
	return string(kb)
}

// evaluated here (child side)
func rawEval(in c16In) *rawResult {
	res := &rawResult{}
	var notes []string
	exprs := []string{"{.}", "{#}", "{.#}"}
	if in.Via == "cli" {
		texts, note := runCli(in, exprs)
		if note != "" {
			notes = append(notes, note)
		}
		for vi := range res.Texts {
			res.Texts[vi] = []string{}
			if texts != nil {
				for _, t := range texts[vi] {
					res.Texts[vi] = append(res.Texts[vi], hex.EncodeToString([]byte(t)))
				}
			}
		}
	} else {
		for vi, e := range exprs {
			texts, note := runView(in, e)
			if note != "" {
				notes = append(notes, e+": "+note)
			}
			res.Texts[vi] = []string{}
			for _, t := range texts {
				res.Texts[vi] = append(res.Texts[vi], hex.EncodeToString([]byte(t)))
			}
		}
	}
	res.Note = strings.Join(notes, "; ")
	return res
}

func rawBatchMain() {
	out := bufio.NewWriterSize(os.Stdout, 1<<20) // the real stdout (runCli swaps os.Stdout temporarily)
	sc := bufio.NewScanner(os.Stdin)
	sc.Buffer(make([]byte, 1<<20), 1<<28)
	for sc.Scan() {
		var in c16In
		if err := json.Unmarshal(sc.Bytes(), &in); err != nil {
			fmt.Fprintln(os.Stderr, "rawbatch: bad input", err)
			os.Exit(2)
		}
		b, _ := json.Marshal(rawEval(in))
		out.Write(b)
		out.WriteByte('\n')
		out.Flush()
	}
}

// parent side: evaluates the inputs that are not in the cache yet
func prefetchRaw(ins []c16In) {
	var todo []c16In
	seen := map[string]bool{}
	for _, in := range ins {
		k := rawKey(in)
		if needsRaw(in) && rawCache[k] == nil && !seen[k] {
			seen[k] = true
			todo = append(todo, in)
		}
	}
	deadline := time.Now().Add(25 * time.Minute)
	for len(todo) > 0 {
		var stdin bytes.Buffer
		for _, in := range todo {
			stdin.WriteString(rawKey(in))
			stdin.WriteByte('\n')
		}
		ctx, cancel := context.WithDeadline(context.Background(), deadline)
		cmd := exec.CommandContext(ctx, os.Args[0], "rawbatch")
		cmd.Stdin = &stdin
		var stdout, stderr bytes.Buffer
		cmd.Stdout, cmd.Stderr = &stdout, &stderr
		err := cmd.Run()
		cancel()
		done := 0
		sc := bufio.NewScanner(&stdout)
		sc.Buffer(make([]byte, 1<<20), 1<<28)
		for sc.Scan() && done < len(todo) {
			var r rawResult
			if json.Unmarshal(sc.Bytes(), &r) != nil {
				break // a torn last line: that case did not finish
			}
			rr := r
			rawCache[rawKey(todo[done])] = &rr
			done++
		}
		if done >= len(todo) {
			break
		}
		// todo[done] took the child down (or the time ran out)
		tail := stderr.String()
		if i := strings.Index(tail, "goroutine "); i > 0 {
			tail = tail[:i]
		}
		if len(tail) > 400 {
			tail = tail[:400]
		}
		rawCache[rawKey(todo[done])] = &rawResult{Texts: [3][]string{{}, {}, {}},
			Note: fmt.Sprintf("the evaluation process ended abnormally (%v): %s", err, strings.TrimSpace(tail))}
		todo = todo[done+1:]
		if time.Now().After(deadline) {
			for _, in := range todo {
				rawCache[rawKey(in)] = &rawResult{Texts: [3][]string{{}, {}, {}}, Note: "not evaluated: time limit of the harness"}
			}
			break
		}
	}
}

func rawTexts(in c16In) ([3][]string, string) {
	k := rawKey(in)
	if rawCache[k] == nil {
		prefetchRaw([]c16In{in})
	}
	r := rawCache[k]
	var out [3][]string
	if r == nil {
		return out, "no result"
	}
	for vi := range out {
		for _, t := range r.Texts[vi] {
			out[vi] = append(out[vi], unhexs(t))
		}
	}
	return out, r.Note
}
