package main

// C16 sequence / concurrent cases: ONE compiled expression per view, evaluated over many different
// matches — one after the other (Workers: 1) or from 4..8 worker goroutines at once — must give,
// for every match, the value of that match alone (the model's view of its captures).
//
// Entry point: extractor.New with a scripted matcher (line -> indices, one shared name table) and
// Config.Ignore set to a probe: extractor.IgnoreSet is a public interface whose IgnoreMatch receives
// the worker's real *SliceSpaceExpressionContext for every match, on the worker goroutine.  The
// probe evaluates its own expressions there — {.} {#} {.#} and {json <view> <member>} queries, each
// compiled ONCE with funclib.NewKeyBuilderEx(true) and (false) and shared by all workers, exactly as
// rare shares its key builder — and, as a reference, freshly compiled ones.  Match.Extracted (the
// extractor's own shared key builder) is collected as well.

import (
	"bytes"
	"context"
	"encoding/hex"
	"encoding/json"
	"fmt"
	"os"
	"os/exec"
	"regexp"
	"sort"
	"strconv"
	"strings"
	"sync"
	"sync/atomic"
	"time"

	"rare/pkg/expressions"
	"rare/pkg/expressions/funclib"
	"rare/pkg/extractor"
	"rare/pkg/matchers"
	. "verifh/lib"
)

type c16SeqLine struct {
	Line    string `json:"line_hex"`
	Indices []int  `json:"indices"`
}

// line -> indices; read-only after construction, so one instance serves every worker
type seqMatcher struct {
	byLine map[string][]int
	names  map[string]int
}

func (m *seqMatcher) CreateInstance() matchers.Matcher { return m }
func (m *seqMatcher) FindSubmatchIndex(b []byte) []int { return m.byLine[string(b)] }
func (m *seqMatcher) SubexpNameTable() map[string]int  { return m.names }

func seqFactory(in c16In) *seqMatcher {
	m := &seqMatcher{byLine: map[string][]int{}, names: map[string]int{}}
	for _, n := range in.Names {
		m.names[unhexs(n.Name)] = n.Idx
	}
	for _, l := range in.Scenario.Lines {
		m.byLine[unhexs(l.Line)] = l.Indices
	}
	return m
}

// the order in which the distinct lines are fed: explicit for sequence scenarios, drawn from a
// seed for concurrent ones
func seqOrder(sc *c16Scenario) []int {
	if sc.Kind == "sequence" {
		return sc.Seq
	}
	r := NewRng(sc.SeqSeed)
	out := make([]int, sc.Total)
	for i := range out {
		out[i] = r.Intn(len(sc.Lines))
	}
	return out
}

var viewExprs = []string{"{.}", "{#}", "{.#}"}

type probe struct {
	lineOf   []int // line number - 1 -> index of the distinct line
	nlines   int
	shared   [][]*expressions.CompiledKeyBuilder // per expression: optimised, unoptimised
	exprs    []string                            // 3 views, then the queries
	wantQ    [][]string                          // per distinct line, per query: expected value
	freshN   int                                 // evaluate a fresh compile every freshN-th time
	workers  int32
	arrived  int32
	ready    chan struct{}
	count    int64
	seen     sync.Map // "line|expr|text" -> struct{}
	bad      sync.Map // line index -> first note
	evalDone int64
}

func (p *probe) IgnoreMatch(ctx expressions.KeyBuilderContext) bool {
	// start barrier: the first `workers` arrivals come from distinct workers (each blocks here)
	if n := atomic.AddInt32(&p.arrived, 1); n <= p.workers {
		if n == p.workers {
			close(p.ready)
		}
		select {
		case <-p.ready:
		case <-time.After(2 * time.Second):
		}
	}
	ln, err := strconv.Atoi(ctx.GetKey("line"))
	if err != nil || ln < 1 || ln > len(p.lineOf) {
		p.bad.LoadOrStore(-1, "unexpected line number "+ctx.GetKey("line"))
		return false
	}
	li := p.lineOf[ln-1]
	k := atomic.AddInt64(&p.count, 1)
	fresh := p.freshN <= 1 || k%int64(p.freshN) == 0
	for ei, e := range p.exprs {
		var ref string
		haveRef := false
		if fresh {
			if c, err := funclib.NewKeyBuilderEx(ei%2 == 0).Compile(e); err == nil {
				ref, haveRef = c.BuildKey(ctx), true
			}
		}
		for _, b := range p.shared[ei] {
			v := b.BuildKey(ctx)
			if ei < 3 {
				p.seen.LoadOrStore(fmt.Sprintf("%d|%d|%s", li, ei, v), struct{}{})
			} else if !sameQueryValue(v, p.wantQ[li][ei-3]) {
				p.bad.LoadOrStore(li, fmt.Sprintf("%s gave %q, expected %q", e, v, p.wantQ[li][ei-3]))
			}
			if haveRef && v != ref {
				p.bad.LoadOrStore(li, fmt.Sprintf("%s: the shared compiled expression gave %q, a fresh compile %q", e, v, ref))
			}
		}
		if haveRef && ei < 3 {
			p.seen.LoadOrStore(fmt.Sprintf("%d|%d|%s", li, ei, ref), struct{}{})
		}
	}
	atomic.AddInt64(&p.evalDone, 1)
	return false
}

var newNumeric = regexp.MustCompile(`^(0|[1-9][0-9]*)(\.[0-9]+)?$`)
var queryName = regexp.MustCompile(`^([A-Za-z_][A-Za-z0-9_]*|[0-9]+)$`)

// the text `{json <view> <member>}` denotes: the first member of that name, as written (bare
// numeral / true / false / the string's bytes); "" when there is none
func expectedQuery(ms []member, key string) string {
	for _, m := range ms {
		if m.key != key {
			continue
		}
		switch {
		case newNumeric.MatchString(m.text):
			return m.text
		case asciiFoldEq(m.text, "true"):
			return "true"
		case asciiFoldEq(m.text, "false"):
			return "false"
		}
		return m.text
	}
	return ""
}

// gjson prints a number with a fraction through float64 (0.00 -> 0): such members are compared by value
func sameQueryValue(got, want string) bool {
	if got == want {
		return true
	}
	if newNumeric.MatchString(want) && strings.Contains(want, ".") {
		a, e1 := strconv.ParseFloat(got, 64)
		b, e2 := strconv.ParseFloat(want, 64)
		return e1 == nil && e2 == nil && a == b
	}
	return false
}

type seqResult struct {
	texts [3]map[int][]string // per view: distinct line index -> distinct texts
	bad   map[int]string
	note  string
}

var seqCache = map[string]*seqResult{}

type seqWire struct {
	Texts [3]map[string][]string `json:"texts_hex"`
	Bad   map[string]string      `json:"bad"`
	Note  string                 `json:"note"`
}

// A stateful change under concurrent evaluation can crash a worker goroutine of the extractor, which
// nothing in this process could recover from: every scenario runs in a child process (this binary
// with the argument `seqchild`); a crash or a hang of the child is the observation "no text".
func runSeqScenario(in c16In) *seqResult {
	kb, _ := json.Marshal(struct {
		Names    []c16Name    `json:"names"`
		Scenario *c16Scenario `json:"scenario"`
	}{in.Names, in.Scenario})
	if r, ok := seqCache[string(kb)]; ok {
		return r
	}
	res := &seqResult{bad: map[int]string{}}
	seqCache[string(kb)] = res
	out, errNote := runChild("seqchild", json.RawMessage(kb))
	if errNote != "" {
		res.note = errNote
		return res
	}
	var w seqWire
	if err := json.Unmarshal(out, &w); err != nil {
		res.note = "unreadable result of the evaluation process: " + err.Error()
		return res
	}
	res.note = w.Note
	for vi := range w.Texts {
		res.texts[vi] = map[int][]string{}
		for k, ts := range w.Texts[vi] {
			li, _ := strconv.Atoi(k)
			for _, t := range ts {
				res.texts[vi][li] = append(res.texts[vi][li], unhexs(t))
			}
		}
	}
	for k, v := range w.Bad {
		li, _ := strconv.Atoi(k)
		res.bad[li] = v
	}
	return res
}

// runs this binary in child mode `mode` with `input` (JSON) on stdin; returns its stdout, or a note
func runChild(mode string, input any) ([]byte, string) {
	return runChildBin(os.Args[0], mode, input, nil)
}

func runChildBin(bin, mode string, input any, env []string) ([]byte, string) {
	ib, _ := json.Marshal(input)
	ctx, cancel := context.WithTimeout(context.Background(), 90*time.Second)
	defer cancel()
	cmd := exec.CommandContext(ctx, bin, mode)
	cmd.Env = append(os.Environ(), env...)
	cmd.Stdin = bytes.NewReader(ib)
	var stdout, stderr bytes.Buffer
	cmd.Stdout, cmd.Stderr = &stdout, &stderr
	if err := cmd.Run(); err != nil {
		tail := stderr.String()
		if i := strings.Index(tail, "goroutine "); i > 0 && !strings.Contains(tail, "DATA RACE") {
			tail = tail[:i]
		}
		if len(tail) > 600 {
			tail = tail[:600]
		}
		return nil, fmt.Sprintf("the evaluation process ended abnormally (%v): %s", err, strings.TrimSpace(tail))
	}
	return stdout.Bytes(), ""
}

// child mode: scenario on stdin, result on stdout
func seqChildMain() {
	var doc struct {
		Names    []c16Name    `json:"names"`
		Scenario *c16Scenario `json:"scenario"`
	}
	if err := json.NewDecoder(os.Stdin).Decode(&doc); err != nil || doc.Scenario == nil {
		fmt.Fprintln(os.Stderr, "seqchild: bad input", err)
		os.Exit(2)
	}
	res := runSeqScenarioHere(c16In{Names: doc.Names, Scenario: doc.Scenario})
	w := seqWire{Bad: map[string]string{}, Note: res.note}
	for vi := range res.texts {
		w.Texts[vi] = map[string][]string{}
		for li, ts := range res.texts[vi] {
			for _, t := range ts {
				w.Texts[vi][strconv.Itoa(li)] = append(w.Texts[vi][strconv.Itoa(li)], hex.EncodeToString([]byte(t)))
			}
		}
	}
	for li, b := range res.bad {
		w.Bad[strconv.Itoa(li)] = b
	}
	json.NewEncoder(os.Stdout).Encode(w)
}

func runSeqScenarioHere(in c16In) *seqResult {
	sc := in.Scenario
	res := &seqResult{bad: map[int]string{}}
	order := seqOrder(sc)
	workers := sc.Workers
	if sc.Kind == "sequence" || workers < 1 {
		workers = 1
	}
	p := &probe{lineOf: order, nlines: len(sc.Lines), workers: int32(workers), ready: make(chan struct{}), freshN: 1}
	if sc.Kind == "concurrent" {
		p.freshN = 16
	}
	p.exprs = append(append([]string(nil), viewExprs...), sc.Queries...)
	for i, e := range p.exprs {
		var pair []*expressions.CompiledKeyBuilder
		for _, opt := range []bool{true, false} {
			c, err := funclib.NewKeyBuilderEx(opt).Compile(e)
			if err != nil {
				res.note = fmt.Sprintf("compile %s: %v", e, err)
				return res
			}
			pair = append(pair, c)
		}
		_ = i
		p.shared = append(p.shared, pair)
	}
	// expectation of the queries, per distinct line
	qre := regexp.MustCompile(`^\{json (\{\.\}|\{#\}|\{\.#\}) (.*)\}$`)
	for _, l := range sc.Lines {
		one := c16In{Names: in.Names, Line: l.Line, Indices: l.Indices, Via: "scripted"}
		var want []string
		for _, q := range sc.Queries {
			m := qre.FindStringSubmatch(q)
			if m == nil {
				want = append(want, "")
				continue
			}
			want = append(want, expectedQuery(expected(one, m[1] != "{#}", m[1] != "{.}"), m[2]))
		}
		p.wantQ = append(p.wantQ, want)
	}
	// all batches are queued before the workers start; line numbers run 1..N in one source
	bs := sc.Batch
	if bs < 1 {
		bs = 1
	}
	nb := (len(order) + bs - 1) / bs
	ch := make(chan extractor.InputBatch, nb+1)
	for lo := 0; lo < len(order); lo += bs {
		hi := lo + bs
		if hi > len(order) {
			hi = len(order)
		}
		b := make([]extractor.BString, 0, hi-lo)
		for _, li := range order[lo:hi] {
			b = append(b, extractor.BString(unhexs(sc.Lines[li].Line)))
		}
		ch <- extractor.InputBatch{Batch: b, Source: "seq", BatchStart: uint64(lo + 1)}
	}
	close(ch)
	extract := viewExprs[sc.Extract%3]
	var mu sync.Mutex
	extracted := map[int]map[string]bool{}
	got := 0
	outcome, pv := Guarded(40*time.Second, func() {
		ex, err := extractor.New(ch, &extractor.Config{Matcher: seqFactory(in), Extract: extract, Workers: workers, Ignore: p})
		if err != nil {
			res.note = "extractor: " + err.Error()
			return
		}
		for ms := range ex.ReadChan() {
			for _, m := range ms {
				if m.LineNumber < 1 || int(m.LineNumber) > len(order) {
					continue
				}
				li := order[m.LineNumber-1]
				mu.Lock()
				if extracted[li] == nil {
					extracted[li] = map[string]bool{}
				}
				extracted[li][m.Extracted] = true
				got++
				mu.Unlock()
			}
		}
	})
	if outcome != "ok" {
		res.note = fmt.Sprintf("%s %v", outcome, pv)
		return res
	}
	if got != len(order) || int(atomic.LoadInt64(&p.evalDone)) != len(order) {
		res.note = fmt.Sprintf("%d matches and %d probe evaluations for %d lines", got, p.evalDone, len(order))
	}
	sets := [3]map[int]map[string]bool{{}, {}, {}}
	p.seen.Range(func(k, _ any) bool {
		parts := strings.SplitN(k.(string), "|", 3)
		li, _ := strconv.Atoi(parts[0])
		vi, _ := strconv.Atoi(parts[1])
		if sets[vi][li] == nil {
			sets[vi][li] = map[string]bool{}
		}
		sets[vi][li][parts[2]] = true
		return true
	})
	for li, ts := range extracted {
		vi := sc.Extract % 3
		if sets[vi][li] == nil {
			sets[vi][li] = map[string]bool{}
		}
		for t := range ts {
			sets[vi][li][t] = true
		}
	}
	for vi := range sets {
		res.texts[vi] = map[int][]string{}
		for li, ts := range sets[vi] {
			for t := range ts {
				res.texts[vi][li] = append(res.texts[vi][li], t)
			}
			sort.Strings(res.texts[vi][li])
		}
	}
	p.bad.Range(func(k, v any) bool {
		res.bad[k.(int)] = v.(string)
		return true
	})
	return res
}

// texts of the case's own line, per view, and whether the {json ...} queries and the
// fresh-compile comparison were all right for it
func seqTexts(in c16In) ([3][]string, bool, string) {
	var out [3][]string
	res := runSeqScenario(in)
	focus := -1
	for i, l := range in.Scenario.Lines {
		if l.Line == in.Line {
			focus = i
		}
	}
	if focus < 0 {
		return out, false, "the case's line is not part of its scenario"
	}
	for vi := range out {
		if res.texts[vi] != nil {
			out[vi] = res.texts[vi][focus]
		}
	}
	note := res.note
	ok := true
	if b, has := res.bad[focus]; has {
		ok = false
		note = strings.TrimSpace(note + " " + b)
	}
	if b, has := res.bad[-1]; has {
		ok = false
		note = strings.TrimSpace(note + " " + b)
	}
	return out, ok, note
}

// ---- generators

// one scenario -> one case per distinct line.  All lines share the name table; they differ in the
// number of groups, in which groups are unmatched, and in what the texts need (escapes or not).
func genSeqScenario(r *Rng, kind string) []c16In {
	nn := r.Intn(4)
	if cleanMode {
		nn = r.Intn(2)
	}
	names := map[string]int{}
	for len(names) < nn {
		names[genName(r, !cleanMode && r.Chance(1, 4))] = r.Range(1, 4)
	}
	var nameList []c16Name
	var plain []string
	for n, i := range names {
		nameList = append(nameList, c16Name{hex.EncodeToString([]byte(n)), i})
		if queryName.MatchString(n) {
			plain = append(plain, n)
		}
	}
	sort.Slice(nameList, func(a, b int) bool { return nameList[a].Name < nameList[b].Name })
	sort.Strings(plain)
	sc := &c16Scenario{Kind: kind, Extract: r.Intn(3)}
	if len(plain) > 0 {
		sc.Queries = append(sc.Queries, "{json {.} "+Pick(r, plain)+"}")
		if r.Chance(1, 2) {
			sc.Queries = append(sc.Queries, "{json {.#} "+Pick(r, plain)+"}")
		}
	}
	sc.Queries = append(sc.Queries, fmt.Sprintf("{json {#} %d}", r.Intn(4)))
	if r.Chance(1, 2) {
		sc.Queries = append(sc.Queries, fmt.Sprintf("{json {.#} %d}", r.Intn(3)))
	}
	used := map[string]bool{}
	add := func(line []byte, idx []int) {
		if used[string(line)] {
			return
		}
		used[string(line)] = true
		sc.Lines = append(sc.Lines, c16SeqLine{hex.EncodeToString(line), idx})
	}
	// an all-empty, probe-like context first: the empty line, every group unmatched
	add([]byte{}, []int{0, 0, -1, -1, -1, -1})
	// lines that share the text of group 0 (a common prefix) but differ in the other groups
	prefix := []byte(Pick(r, words) + " ")
	nl := r.Range(5, 9)
	for len(sc.Lines) < nl {
		var line []byte
		shared := r.Chance(1, 3)
		if shared {
			line = append(line, prefix...)
		}
		ng := r.Range(0, 4)
		var spans []int
		plainOnly := r.Chance(1, 3) // a line whose texts need no escaping at all
		for g := 0; g < ng; g++ {
			if r.Chance(1, 6) {
				spans = append(spans, -1, -1)
				continue
			}
			t := genText(r)
			if plainOnly {
				t = Pick(r, words)
			}
			if len(line) > 0 {
				line = append(line, ' ')
			}
			spans = append(spans, len(line), len(line)+len(t))
			line = append(line, t...)
		}
		idx := []int{0, len(line)}
		if shared {
			idx = []int{0, len(prefix)}
		}
		add(line, append(idx, spans...))
	}
	if kind == "sequence" {
		// every line at least once, adjacent repeats, the probe-like line first and again in the middle
		sc.Seq = append(sc.Seq, 0)
		for i := range sc.Lines {
			sc.Seq = append(sc.Seq, i)
			if r.Chance(1, 3) {
				sc.Seq = append(sc.Seq, i)
			}
		}
		for i := 0; i < 2*len(sc.Lines); i++ {
			sc.Seq = append(sc.Seq, r.Intn(len(sc.Lines)))
		}
		sc.Batch = r.Range(1, 4)
		sc.Workers = 1
	} else {
		sc.Workers = r.Range(4, 8)
		sc.Batch = 250
		sc.Total = sc.Workers * 2500
		sc.SeqSeed = r.U64()
	}
	var out []c16In
	for _, l := range sc.Lines {
		out = append(out, c16In{Names: append([]c16Name(nil), nameList...), Line: l.Line, Indices: l.Indices, Via: kind, Scenario: sc})
	}
	return out
}

// ---- width: matches with many capture groups (member names of two, three and four digits)

var wideWidths = []int{0, 1, 9, 10, 11, 99, 100, 101, 110, 130, 450, 1000}

// a line of `width` space-separated fields, group g = field g (every 7th group unmatched, every 5th
// field a number, some fields empty), group 0 = the whole line
func wideLine(r *Rng, width int) ([]byte, []int) {
	var line []byte
	spans := make([]int, 0, 2*width)
	for g := 1; g <= width; g++ {
		if len(line) > 0 {
			line = append(line, ' ')
		}
		var t string
		switch {
		case g%5 == 0:
			t = strconv.Itoa(g * 3)
		case g%11 == 0:
			t = ""
		case g%13 == 0:
			t = genText(r)
		default:
			t = fmt.Sprintf("w%dx", g)
		}
		if g%7 == 0 && g != width {
			spans = append(spans, -1, -1)
		} else {
			spans = append(spans, len(line), len(line)+len(t))
		}
		line = append(line, t...)
	}
	return line, append([]int{0, len(line)}, spans...)
}

func wideNames(width int, named bool) []c16Name {
	ns := []c16Name{}
	if !named || width == 0 {
		return ns
	}
	add := func(n string, i int) {
		if i >= 1 && i <= width {
			ns = append(ns, c16Name{hex.EncodeToString([]byte(n)), i})
		}
	}
	add("last", width)
	if !cleanMode {
		add("first", 1)
		add("g100", 100)
		add("mid", width/2)
	}
	return ns
}

func genWide(r *Rng, width int, named bool) c16In {
	line, idx := wideLine(r, width)
	return c16In{Names: wideNames(width, named), Line: hex.EncodeToString(line), Indices: idx, Via: "scripted"}
}

// a real matcher over a wide record: regexp with n groups / dissect with n tokens
func genWideReal(r *Rng, via string, n int) (c16In, bool) {
	var pat strings.Builder
	var line []byte
	if via == "regex" {
		pat.WriteString(`^`)
	}
	for i := 1; i <= n; i++ {
		if i > 1 {
			pat.WriteString(" ")
			line = append(line, ' ')
		}
		line = append(line, fmt.Sprintf("v%dz", i)...)
		switch {
		case via == "dissect":
			pat.WriteString(fmt.Sprintf("%%{f%d}", i))
		case i == n || i == 100:
			pat.WriteString(fmt.Sprintf(`(?P<n%d>\S+)`, i))
		default:
			pat.WriteString(`(\S+)`)
		}
	}
	if via == "regex" {
		pat.WriteString(`$`)
	}
	in, ok := fromMatcher(via, pat.String(), line)
	if ok && cleanMode && len(in.Names) > 1 {
		return in, false
	}
	return in, ok
}

// one compiled {json <view> <index>} per boundary index, over lines of growing and shrinking width
func wideSeqScenario(r *Rng) []c16In {
	sc := &c16Scenario{Kind: "sequence", Extract: 1, Workers: 1, Batch: 2}
	for _, q := range []int{0, 9, 10, 11, 99, 100, 101, 110, 129, 449, 450} {
		v := "{#}"
		if q%2 == 1 {
			v = "{.#}"
		}
		sc.Queries = append(sc.Queries, fmt.Sprintf("{json %s %d}", v, q))
	}
	sc.Queries = append(sc.Queries, "{json {.} g100}")
	for _, w := range []int{0, 9, 100, 10, 450, 99, 101, 130, 11} {
		line, idx := wideLine(r, w)
		if w == 0 {
			line, idx = []byte("-"), []int{0, 1}
		}
		sc.Lines = append(sc.Lines, c16SeqLine{hex.EncodeToString(line), idx})
	}
	for i := range sc.Lines {
		sc.Seq = append(sc.Seq, i)
	}
	for i := len(sc.Lines) - 1; i >= 0; i-- {
		sc.Seq = append(sc.Seq, i, i)
	}
	names := []c16Name{{hex.EncodeToString([]byte("g100")), 100}}
	var out []c16In
	for _, l := range sc.Lines {
		out = append(out, c16In{Names: append([]c16Name(nil), names...), Line: l.Line, Indices: l.Indices, Via: "sequence", Scenario: sc})
	}
	return out
}
