package main

// C16: the JSON views {.} {#} {.#} of a match.
// Entry point: extractor.New(...) with Extract = "{.}" / "{#}" / "{.#}" over a batch of 50 copies of
// one line; Match.Extracted is the view.  The matcher is either a scripted matchers.Factory (returns
// the indices and the name table of the case: arbitrary group layouts and member names), or the real
// fastregex / dissect matcher compiled from a generated pattern (then the indices and the name table
// the model receives are the ones that matcher returns).
// Second oracle (besides the Coq reader): encoding/json with UseNumber.

import (
	"bytes"
	"encoding/hex"
	"encoding/json"
	"fmt"
	"io"
	"math/big"
	"os"
	"path/filepath"
	"regexp"
	"sort"
	"strconv"
	"strings"
	"time"
	"unicode/utf8"

	"rare/cmd"
	"rare/pkg/extractor"
	"rare/pkg/extractor/batchers"
	"rare/pkg/matchers"
	"rare/pkg/matchers/dissect"
	"rare/pkg/matchers/fastregex"
	. "verifh/lib"

	"github.com/urfave/cli/v2"
)

const repeats = 50

type c16Name struct {
	Name string `json:"name_hex"`
	Idx  int    `json:"idx"`
}
type c16In struct {
	Names   []c16Name `json:"names"` // sorted by name
	Line    string    `json:"line_hex"`
	Indices []int     `json:"indices"`
	Via     string    `json:"via"`                // scripted | regex | dissect | cli
	Pattern string    `json:"pattern,omitempty"`  // for regex / dissect: the pattern (hex)
	Data    []string  `json:"data_hex,omitempty"` // via = cli: the -d arguments
	Keys    []c16KV   `json:"keys,omitempty"`     // via = cli: the -k key=value arguments (distinct keys, sorted)
	// via = pipeline: the whole run this line was observed in (the case reports the line `line_hex`)
	Scenario *c16Scenario `json:"scenario,omitempty"`
}

// several sources whose line numbers all start at 1, pushed through ONE extractor (the expression
// context is reused per worker across matches and sources)
type c16Scenario struct {
	Sources [][]string `json:"sources_hex"` // per source: its lines
	Batch   int        `json:"batch_size"`  // lines per input batch
	Order   []int      `json:"batch_order"` // scripted: which source the k-th batch comes from (per-source order kept)
	Files   bool       `json:"files"`       // true: temp files under $VERIF_WORK read by batchers.OpenFilesToChan
	Workers int        `json:"workers"`     // every view is run with Workers: 1 and with this many (2..4)
	Reps    int        `json:"repetitions"`

	// kind = sequence | concurrent (seq.go): ONE compiled expression per view over many different matches
	Kind     string       `json:"kind,omitempty"`
	Lines    []c16SeqLine `json:"lines,omitempty"`    // the distinct lines with their indices (one shared name table)
	Seq      []int        `json:"sequence,omitempty"` // sequence: the order in which the lines are fed (Workers: 1)
	Total    int          `json:"total,omitempty"`    // concurrent: number of lines fed, drawn with seq_seed
	SeqSeed  uint64       `json:"seq_seed,omitempty"`
	Queries  []string     `json:"queries,omitempty"`                   // {json <view> <member>} expressions evaluated besides the views
	RaceReps int          `json:"race_detector_repetitions,omitempty"` // kind = startup: start-ups in the -race build
	Extract  int          `json:"extract_view"`                        // which view is the extractor's own expression (0 {.} 1 {#} 2 {.#})
}
type c16KV struct {
	Key string `json:"key_hex"`
	Val string `json:"value_hex"`
}
type c16Out struct {
	Dot    []string `json:"dot_hex"`  // distinct texts of {.} over 50 evaluations
	Hash   []string `json:"hash_hex"` // {#}
	Both   []string `json:"both_hex"` // {.#}
	Oracle [3]bool  `json:"encoding_json_ok"`
	Note   string   `json:"note,omitempty"`
}

// ---- scripted matcher
type fixedMatcher struct {
	idx   []int
	names map[string]int
}

func (m *fixedMatcher) CreateInstance() matchers.Matcher { return m }
func (m *fixedMatcher) FindSubmatchIndex(b []byte) []int { return m.idx }
func (m *fixedMatcher) SubexpNameTable() map[string]int  { return m.names }

func unhexs(s string) string {
	b, _ := hex.DecodeString(s)
	return string(b)
}

func factoryOf(in c16In) (matchers.Factory, error) {
	switch in.Via {
	case "regex", "pipeline", "startup":
		re, err := fastregex.CompileEx(unhexs(in.Pattern), false)
		if err != nil {
			return nil, err
		}
		return matchers.ToFactory(re), nil
	case "dissect":
		d, err := dissect.Compile(unhexs(in.Pattern))
		if err != nil {
			return nil, err
		}
		return matchers.ToFactory(d), nil
	}
	if (in.Via == "sequence" || in.Via == "concurrent") && in.Scenario != nil {
		return seqFactory(in), nil
	}
	names := map[string]int{}
	for _, n := range in.Names {
		names[unhexs(n.Name)] = n.Idx
	}
	return &fixedMatcher{idx: in.Indices, names: names}, nil
}

// evaluates one view `repeats` times on the same match; returns the distinct texts, sorted
// proper prefixes of UTF-8 encodings: c3 a9, e2 80 a6 / e2 80 a8, e2 82 ac, ef bb bf, f0 9f 98 80, f4 8f bf bf
var truncatedTails = []string{"\xc3", "\xe2", "\xe2\x80", "\xe2\x82", "\xef", "\xef\xbb", "\xf0", "\xf0\x9f", "\xf0\x9f\x98", "\xf4", "\xf4\x8f", "\xf4\x8f\xbf"}

// names the context resolves itself before (or instead of) looking at the name table
var reservedNames = []string{"src", "line", ".", "#", ".#", "#.", "@"}

func runView(in c16In, expr string) ([]string, string) {
	f, err := factoryOf(in)
	if err != nil {
		return nil, "matcher: " + err.Error()
	}
	line := []byte(unhexs(in.Line))
	batch := make([]extractor.BString, repeats)
	for i := range batch {
		batch[i] = extractor.BString(line)
	}
	ch := make(chan extractor.InputBatch, 1)
	ch <- extractor.InputBatch{Batch: batch, Source: "/var/log/c16-source.log", BatchStart: 7001}
	close(ch)
	ex, err := extractor.New(ch, &extractor.Config{Matcher: f, Extract: expr, Workers: 1})
	if err != nil {
		return nil, "extractor: " + err.Error()
	}
	seen := map[string]bool{}
	n := 0
	timeout := time.After(20 * time.Second)
loop:
	for {
		select {
		case ms, ok := <-ex.ReadChan():
			if !ok {
				break loop
			}
			for _, m := range ms {
				seen[m.Extracted] = true
				n++
			}
		case <-timeout:
			return nil, "timeout"
		}
	}
	note := ""
	if n != repeats {
		note = fmt.Sprintf("%d of %d lines matched", n, repeats)
	}
	var out []string
	for t := range seen {
		out = append(out, t)
	}
	sort.Strings(out)
	return out, note
}

// ---- whole pipeline: 2..4 sources -> input batches -> extractor.New (one matcher, one expression) -> matches
var scenarioCache = map[string][3]map[string][]string{}
var scenarioNotes = map[string]string{}
var scenarioSeq int

func scenarioBatches(sc *c16Scenario, dir string, concurrency int) (<-chan extractor.InputBatch, error) {
	if sc.Files {
		names := make(chan string, len(sc.Sources))
		for i, src := range sc.Sources {
			fn := filepath.Join(dir, fmt.Sprintf("src%d.log", i))
			var buf bytes.Buffer
			for _, l := range src {
				buf.WriteString(unhexs(l))
				buf.WriteByte('\n')
			}
			if err := os.WriteFile(fn, buf.Bytes(), 0o644); err != nil {
				return nil, err
			}
			names <- fn
		}
		close(names)
		return batchers.OpenFilesToChan(names, false, concurrency, sc.Batch, 1).BatchChan(), nil
	}
	ch := make(chan extractor.InputBatch, len(sc.Order)+1)
	pos := make([]int, len(sc.Sources))
	for _, si := range sc.Order {
		if si < 0 || si >= len(sc.Sources) || pos[si] >= len(sc.Sources[si]) {
			continue
		}
		hi := pos[si] + sc.Batch
		if hi > len(sc.Sources[si]) {
			hi = len(sc.Sources[si])
		}
		var b []extractor.BString
		for _, l := range sc.Sources[si][pos[si]:hi] {
			b = append(b, extractor.BString(unhexs(l)))
		}
		ch <- extractor.InputBatch{Batch: b, Source: fmt.Sprintf("source-%d", si), BatchStart: uint64(pos[si] + 1)}
		pos[si] = hi
	}
	close(ch)
	return ch, nil
}

// runs the scenario for the three views with Workers 1 and sc.Workers; result: per view, line -> distinct texts
func runScenario(in c16In) ([3]map[string][]string, string) {
	kb, _ := json.Marshal(struct {
		P string
		S *c16Scenario
	}{in.Pattern, in.Scenario})
	key := string(kb)
	if r, ok := scenarioCache[key]; ok {
		return r, scenarioNotes[key]
	}
	// in a child process (see seq.go runSeqScenario): a worker goroutine that crashes must not take the harness down
	var res [3]map[string][]string
	note := ""
	var w seqWire
	if out, err := runChild("pipechild", c16In{Pattern: in.Pattern, Scenario: in.Scenario, Via: "pipeline"}); err != "" {
		note = err
	} else if e := json.Unmarshal(out, &w); e != nil {
		note = "unreadable result of the evaluation process: " + e.Error()
	} else {
		note = w.Note
		for vi := range w.Texts {
			res[vi] = map[string][]string{}
			for l, ts := range w.Texts[vi] {
				for _, t := range ts {
					res[vi][unhexs(l)] = append(res[vi][unhexs(l)], unhexs(t))
				}
			}
		}
	}
	scenarioCache[key] = res
	scenarioNotes[key] = note
	return res, note
}

func pipeChildMain() {
	var in c16In
	if err := json.NewDecoder(os.Stdin).Decode(&in); err != nil || in.Scenario == nil {
		fmt.Fprintln(os.Stderr, "pipechild: bad input", err)
		os.Exit(2)
	}
	res, note := runScenarioHere(in)
	w := seqWire{Note: note}
	for vi := range res {
		w.Texts[vi] = map[string][]string{}
		for l, ts := range res[vi] {
			for _, t := range ts {
				k := hex.EncodeToString([]byte(l))
				w.Texts[vi][k] = append(w.Texts[vi][k], hex.EncodeToString([]byte(t)))
			}
		}
	}
	json.NewEncoder(os.Stdout).Encode(w)
}

func runScenarioHere(in c16In) ([3]map[string][]string, string) {
	sc := in.Scenario
	var res [3]map[string][]string
	var notes []string
	dir := ""
	if sc.Files {
		base := os.Getenv("VERIF_WORK")
		if base == "" {
			base = os.TempDir()
		}
		scenarioSeq++
		dir = filepath.Join(base, fmt.Sprintf("c16-pipeline-%d-%d", os.Getpid(), scenarioSeq))
		os.MkdirAll(dir, 0o755)
		defer os.RemoveAll(dir)
	}
	re, err := fastregex.CompileEx(unhexs(in.Pattern), false)
	if err != nil {
		return res, "matcher: " + err.Error()
	}
	reps := sc.Reps
	if reps < 1 {
		reps = 1
	}
	for vi, expr := range []string{"{.}", "{#}", "{.#}"} {
		seen := map[string]map[string]bool{}
		for _, workers := range []int{1, sc.Workers} {
			for rep := 0; rep < reps; rep++ {
				ch, err := scenarioBatches(sc, dir, 1+rep%2)
				if err != nil {
					notes = append(notes, err.Error())
					continue
				}
				ex, err := extractor.New(ch, &extractor.Config{Matcher: matchers.ToFactory(re), Extract: expr, Workers: workers})
				if err != nil {
					notes = append(notes, err.Error())
					continue
				}
				timeout := time.After(20 * time.Second)
			loop:
				for {
					select {
					case ms, ok := <-ex.ReadChan():
						if !ok {
							break loop
						}
						for _, m := range ms {
							if seen[m.Line] == nil {
								seen[m.Line] = map[string]bool{}
							}
							seen[m.Line][m.Extracted] = true
						}
					case <-timeout:
						notes = append(notes, "timeout")
						break loop
					}
				}
			}
		}
		res[vi] = map[string][]string{}
		for l, ts := range seen {
			for t := range ts {
				res[vi][l] = append(res[vi][l], t)
			}
			sort.Strings(res[vi][l])
		}
	}
	return res, strings.Join(notes, "; ")
}

// ---- `rare expression -r -n -d ... -k k=v '{.}'` run in-process (cmd.GetSupportedCommands), stdout captured
func runCli(in c16In, exprs []string) ([][]string, string) {
	var command *cli.Command
	for _, c := range cmd.GetSupportedCommands() {
		if c.Name == "expression" {
			command = c
		}
	}
	if command == nil {
		return nil, "no expression command"
	}
	args := []string{"rare", "expression", "-r", "-n"}
	for _, d := range in.Data {
		args = append(args, "--data", unhexs(d))
	}
	// the order of the -k arguments must not matter: rotate it between evaluations
	kvs := make([]string, len(in.Keys))
	for i, kv := range in.Keys {
		kvs[i] = unhexs(kv.Key) + "=" + unhexs(kv.Val)
	}
	const sep = "\n--c16-7f3a9c1e5b--\n"
	rd, wr, err := os.Pipe()
	if err != nil {
		return nil, err.Error()
	}
	orig := os.Stdout
	os.Stdout = wr
	done := make(chan string)
	go func() {
		var buf bytes.Buffer
		io.Copy(&buf, rd)
		done <- buf.String()
	}()
	note := ""
	func() {
		defer func() {
			if e := recover(); e != nil {
				note = "panic: " + fmt.Sprint(e)
			}
		}()
		for _, ex := range exprs {
			for k := 0; k < repeats; k++ {
				a := append([]string(nil), args...)
				for i := range kvs {
					a = append(a, "--key", kvs[(i+k)%len(kvs)])
				}
				a = append(a, "--", ex)
				app := cli.NewApp()
				app.Commands = []*cli.Command{command}
				app.ExitErrHandler = func(*cli.Context, error) {}
				app.Writer, app.ErrWriter = io.Discard, io.Discard
				if err := app.Run(a); err != nil && note == "" {
					note = "run: " + err.Error()
				}
				fmt.Fprint(os.Stdout, sep)
			}
		}
	}()
	os.Stdout = orig
	wr.Close()
	all := <-done
	rd.Close()
	parts := strings.Split(all, sep)
	if len(parts) != len(exprs)*repeats+1 {
		return nil, fmt.Sprintf("%s; %d outputs", note, len(parts)-1)
	}
	res := make([][]string, len(exprs))
	for i := range exprs {
		seen := map[string]bool{}
		for k := 0; k < repeats; k++ {
			seen[parts[i*repeats+k]] = true
		}
		for t := range seen {
			res[i] = append(res[i], t)
		}
		sort.Strings(res[i])
	}
	return res, note
}

func expectedCli(in c16In, named, numbered bool) []member {
	var ms []member
	if numbered {
		for i, d := range in.Data {
			ms = append(ms, member{strconv.Itoa(i), unhexs(d)})
		}
	}
	if named {
		kvs := append([]c16KV(nil), in.Keys...)
		sort.Slice(kvs, func(a, b int) bool { return unhexs(kvs[a].Key) < unhexs(kvs[b].Key) })
		for _, kv := range kvs {
			ms = append(ms, member{unhexs(kv.Key), unhexs(kv.Val)})
		}
	}
	return ms
}

// ---- expectation of the oracle side (computed from the input, independently of the code under test)
type member struct{ key, text string }

func groupText(line string, idx []int, g int) string {
	si := g * 2
	if si < 0 || si+1 >= len(idx) || idx[si] < 0 || idx[si+1] < 0 {
		return ""
	}
	return line[idx[si]:idx[si+1]]
}

func expected(in c16In, named, numbered bool) []member {
	if in.Via == "cli" {
		return expectedCli(in, named, numbered)
	}
	line := unhexs(in.Line)
	var ms []member
	if named {
		ns := append([]c16Name(nil), in.Names...)
		sort.SliceStable(ns, func(a, b int) bool {
			if ns[a].Idx != ns[b].Idx {
				return ns[a].Idx < ns[b].Idx
			}
			return unhexs(ns[a].Name) < unhexs(ns[b].Name)
		})
		for _, n := range ns {
			ms = append(ms, member{unhexs(n.Name), groupText(line, in.Indices, n.Idx)})
		}
	}
	if numbered {
		for i := 0; i < len(in.Indices)/2; i++ {
			if t := groupText(line, in.Indices, i); t != "" {
				ms = append(ms, member{strconv.Itoa(i), t})
			}
		}
	}
	return ms
}

// equal to the lower-case ASCII word after mapping A..Z to a..z, and nothing else
func asciiFoldEq(s, lower string) bool {
	if len(s) != len(lower) {
		return false
	}
	for i := 0; i < len(s); i++ {
		c := s[i]
		if 'A' <= c && c <= 'Z' {
			c += 'a' - 'A'
		}
		if c != lower[i] {
			return false
		}
	}
	return true
}

// what encoding/json makes of raw bytes inside a string: every invalid byte becomes U+FFFD
func lossy(s string) string { return string([]rune(s)) }

var decimalShape = regexp.MustCompile(`^[+-]?(\d+\.?\d*|\.\d+)([eE][+-]?\d+)?$`)

func ratOf(s string) *big.Rat {
	if !decimalShape.MatchString(s) {
		return nil
	}
	r, ok := new(big.Rat).SetString(s)
	if !ok {
		return nil
	}
	return r
}

// encoding/json accepts the text as one object and its members agree with the expectation
func oracle(text string, exp []member) bool {
	if !json.Valid([]byte(text)) {
		return false
	}
	dec := json.NewDecoder(strings.NewReader(text))
	dec.UseNumber()
	tok, err := dec.Token()
	if err != nil || tok != json.Delim('{') {
		return false
	}
	for _, e := range exp {
		k, err := dec.Token()
		if err != nil {
			return false
		}
		ks, ok := k.(string)
		if !ok || ks != lossy(e.key) {
			return false
		}
		v, err := dec.Token()
		if err != nil {
			return false
		}
		switch x := v.(type) {
		case string:
			if x != lossy(e.text) {
				return false
			}
		case json.Number:
			a, b := ratOf(x.String()), ratOf(e.text)
			if a == nil || b == nil || a.Cmp(b) != 0 {
				return false
			}
		case bool:
			if !asciiFoldEq(e.text, strconv.FormatBool(x)) {
				return false
			}
		default:
			return false
		}
	}
	tok, err = dec.Token()
	if err != nil || tok != json.Delim('}') {
		return false
	}
	if _, err = dec.Token(); err != io.EOF {
		return false
	}
	return true
}

func c16Run(in c16In) (out c16Out) {
	defer func() {
		if e := recover(); e != nil {
			out = c16Out{Note: "panic: " + fmt.Sprint(e)}
		}
	}()
	var notes []string
	views := []struct {
		expr            string
		named, numbered bool
		dst             *[]string
	}{{"{.}", true, false, &out.Dot}, {"{#}", false, true, &out.Hash}, {"{.#}", true, true, &out.Both}}
	var raw [3][]string
	if needsRaw(in) {
		var note string
		raw, note = rawTexts(in)
		if note != "" {
			notes = append(notes, note)
		}
	}
	var pipeTexts [3]map[string][]string
	if in.Via == "pipeline" && in.Scenario != nil {
		var note string
		pipeTexts, note = runScenario(in)
		if note != "" {
			notes = append(notes, note)
		}
	}
	var startT [3][]string
	if in.Via == "startup" && in.Scenario != nil {
		var note string
		startT, note = startupTexts(in)
		if note != "" {
			notes = append(notes, note)
		}
	}
	isSeq := (in.Via == "sequence" || in.Via == "concurrent") && in.Scenario != nil
	var seqT [3][]string
	seqOK := true
	if isSeq {
		var note string
		seqT, seqOK, note = seqTexts(in)
		if note != "" {
			notes = append(notes, note)
		}
	}
	for vi, v := range views {
		var texts []string
		var note string
		if in.Via == "startup" {
			texts = startT[vi]
		} else if isSeq {
			texts = seqT[vi]
		} else if in.Via == "pipeline" {
			if pipeTexts[vi] != nil {
				texts = pipeTexts[vi][unhexs(in.Line)]
			}
		} else {
			texts = raw[vi]
		}
		if note != "" {
			notes = append(notes, v.expr+": "+note)
		}
		exp := expected(in, v.named, v.numbered)
		ok := len(texts) > 0
		for _, t := range texts {
			*v.dst = append(*v.dst, hex.EncodeToString([]byte(t)))
			ok = ok && oracle(t, exp)
		}
		if *v.dst == nil {
			*v.dst = []string{}
		}
		// sequence / concurrent: also the {json ...} queries and the comparison with a fresh compile
		out.Oracle[vi] = ok && seqOK
	}
	out.Note = strings.Join(notes, "; ")
	return
}

// ---- classification of an input (tags decided from the input alone)

func isOtherControl(c byte) bool {
	return c < 0x20 && c != '\b' && c != '\f' && c != '\n' && c != '\r' && c != '\t'
}

// the pinned isNumeric: [0-9]+(\.[0-9]+)?
var oldNumeric = regexp.MustCompile(`^[0-9]+(\.[0-9]+)?$`)
var numericLooking = regexp.MustCompile(`^[+-]?[0-9.]+([eE][+-]?[0-9]*)?$`)

// the pinned escape() rewrites an invalid byte to U+FFFD only after the first character it maps
func oldEscapeRewritesInvalid(s string) bool {
	mapped := false
	for i := 0; i < len(s); {
		r, w := utf8.DecodeRuneInString(s[i:])
		if r == utf8.RuneError && w == 1 {
			if mapped {
				return true
			}
		} else if r == '\b' || r == '\f' || r == '\n' || r == '\r' || r == '\t' || r == '"' || r == '\\' {
			mapped = true
		}
		i += w
	}
	return false
}

func needsKeyEscape(s string) bool {
	for i := 0; i < len(s); i++ {
		if s[i] < 0x20 || s[i] == '"' || s[i] == '\\' {
			return true
		}
	}
	return false
}

func c16Case(in c16In) Case {
	if in.Names == nil {
		in.Names = []c16Name{}
	}
	sort.Slice(in.Names, func(a, b int) bool { return in.Names[a].Name < in.Names[b].Name })
	sort.Slice(in.Keys, func(a, b int) bool { return in.Keys[a].Key < in.Keys[b].Key })
	if collecting {
		pendingIns = append(pendingIns, in)
		return Case{}
	}
	out := c16Run(in)
	tbl := make([]string, len(in.Names))
	for i, n := range in.Names {
		tbl[i] = fmt.Sprintf("(\"%s\",%s)", n.Name, Z(int64(n.Idx)))
	}
	ix := make([]string, len(in.Indices))
	for i, x := range in.Indices {
		ix[i] = Z(int64(x))
	}
	q := func(xs []string) string {
		ps := make([]string, len(xs))
		for i, x := range xs {
			ps[i] = "\"" + x + "\""
		}
		return "[" + strings.Join(ps, ";") + "]"
	}
	coq := fmt.Sprintf("c %s \"%s\" %s %s %s %s %s %s %s", CoqList(tbl), in.Line, CoqList(ix),
		q(out.Dot), q(out.Hash), q(out.Both), B(out.Oracle[0]), B(out.Oracle[1]), B(out.Oracle[2]))
	if len(in.Indices) > 64 { // wide match: long strings in chunks, the index vector as text (see Corr/C16Case.v cw)
		chunks := func(h string) string {
			var ps []string
			for len(h) > 1500 {
				ps = append(ps, "\""+h[:1500]+"\"")
				h = h[1500:]
			}
			ps = append(ps, "\""+h+"\"")
			return "[" + strings.Join(ps, ";") + "]"
		}
		qc := func(xs []string) string {
			ps := make([]string, len(xs))
			for i, x := range xs {
				ps[i] = chunks(x)
			}
			return "[" + strings.Join(ps, ";") + "]"
		}
		var ixs []string
		for lo := 0; lo < len(in.Indices); lo += 200 {
			hi := lo + 200
			if hi > len(in.Indices) {
				hi = len(in.Indices)
			}
			nums := make([]string, hi-lo)
			for i, x := range in.Indices[lo:hi] {
				nums[i] = strconv.Itoa(x)
			}
			ixs = append(ixs, "\""+strings.Join(nums, ",")+"\"")
		}
		coq = fmt.Sprintf("cw %s %s %s %s %s %s %s %s %s", CoqList(tbl), chunks(in.Line), CoqList(ixs),
			qc(out.Dot), qc(out.Hash), qc(out.Both), B(out.Oracle[0]), B(out.Oracle[1]), B(out.Oracle[2]))
	}
	if in.Via == "cli" {
		kv := make([]string, len(in.Keys))
		for i, k := range in.Keys {
			kv[i] = fmt.Sprintf("(\"%s\",\"%s\")", k.Key, k.Val)
		}
		coq = fmt.Sprintf("e %s %s %s %s %s %s %s %s", q(in.Data), CoqList(kv),
			q(out.Dot), q(out.Hash), q(out.Both), B(out.Oracle[0]), B(out.Oracle[1]), B(out.Oracle[2]))
	}

	tags, nontrivial := classify(in)
	kb, _ := json.Marshal(in)
	return Case{Coq: coq, Desc: map[string]any{"input": in, "impl": out}, Key: string(kb), Nontrivial: nontrivial, Tags: tags}
}

// classes of an input, decided from the input alone; "kf:<id>" = the input lies in the domain of that known finding
func classify(in c16In) ([]string, bool) {
	all := expected(in, true, true)
	tagset := map[string]bool{}
	for _, m := range all {
		t := m.text
		for i := 0; i < len(t); i++ {
			switch {
			case isOtherControl(t[i]):
				tagset["kf:C16-control-char"] = true
				tagset["text:other-control-char"] = true
			case t[i] < 0x20:
				tagset["text:bfnrt"] = true
			case t[i] == '"' || t[i] == '\\':
				tagset["text:quote-or-backslash"] = true
			case t[i] == 0x7f:
				tagset["text:del"] = true
			}
		}
		if !utf8.ValidString(t) {
			tagset["text:invalid-utf8"] = true
			if oldEscapeRewritesInvalid(t) {
				tagset["kf:C16-invalid-utf8"] = true
			}
		} else if len(t) != len([]rune(t)) {
			tagset["text:non-ascii"] = true
		}
		if oldNumeric.MatchString(t) {
			if len(t) > 1 && t[0] == '0' && t[1] != '.' {
				if in.Via != "cli" { // the expression command writes every value as a string
					tagset["kf:C16-leading-zero"] = true
				}
				tagset["text:leading-zero-numeral"] = true
			} else {
				tagset["text:json-number"] = true
			}
		} else if numericLooking.MatchString(t) {
			tagset["text:numeric-looking-string"] = true
		}
		if asciiFoldEq(t, "true") || asciiFoldEq(t, "false") {
			tagset["text:boolean"] = true
		} else if strings.EqualFold(t, "true") || strings.EqualFold(t, "false") {
			// equal to the word only under Unicode folding (U+017F long s): must be written as a string
			tagset["text:boolean-unicode-fold-only"] = true
			if in.Via != "cli" {
				tagset["kf:C16-bool-long-s"] = true
			}
		} else if l := strings.ToLower(t); strings.Contains(l, "tru") || strings.Contains(l, "fal") {
			tagset["text:boolean-lookalike"] = true
		}
		if needsKeyEscape(m.key) {
			tagset["kf:C16-key-escape"] = true
			tagset["name:needs-escape"] = true
		}
	}
	if len(in.Names) >= 2 || len(in.Keys) >= 2 {
		tagset["kf:C16-member-order"] = true
	}
	if in.Via == "cli" {
		tagset[fmt.Sprintf("cli:keys=%d", len(in.Keys))] = true
	}
	if in.Via == "startup" {
		tagset["stateful:fresh-start-up(8 workers, named groups)"] = true
	}
	if (in.Via == "sequence" || in.Via == "concurrent") && in.Scenario != nil {
		sc := in.Scenario
		if in.Via == "sequence" {
			tagset["stateful:sequence(one compiled expression, many matches)"] = true
		} else {
			tagset[fmt.Sprintf("stateful:concurrent(workers=%d)", sc.Workers)] = true
		}
		if len(in.Line) == 0 {
			tagset["stateful:all-empty-context"] = true
		}
	}
	if in.Via == "pipeline" && in.Scenario != nil {
		sc := in.Scenario
		tagset[fmt.Sprintf("pipeline:sources=%d", len(sc.Sources))] = true
		if sc.Files {
			tagset["pipeline:files(OpenFilesToChan)"] = true
		} else {
			tagset["pipeline:scripted-batches"] = true
		}
		// the line is rendered right after a match with the same line number from another source
		if pipelineCollides(in) {
			tagset["pipeline:same-line-number-back-to-back"] = true
		}
		occ := 0
		for _, src := range sc.Sources {
			for _, l := range src {
				if l == in.Line {
					occ++
				}
			}
		}
		if occ >= 2 {
			tagset["pipeline:line-in-several-places"] = true
		}
	}
	unmatched := false
	for i := 0; i+1 < len(in.Indices); i += 2 {
		if in.Indices[i] < 0 {
			unmatched = true
		}
	}
	if unmatched {
		tagset["group:unmatched"] = true
	}
	switch g := len(in.Indices)/2 - 1; {
	case in.Via == "cli":
	case g >= 1000:
		tagset["width:groups>=1000(4-digit names)"] = true
	case g >= 100:
		tagset["width:groups>=100(3-digit names)"] = true
	case g >= 10:
		tagset["width:groups>=10(2-digit names)"] = true
	}
	if len(in.Indices)%2 == 1 {
		tagset["indices:odd-length"] = true
	}
	for _, n := range in.Names {
		if n.Idx*2+1 >= len(in.Indices) || n.Idx < 0 {
			tagset["name:index-out-of-range"] = true
		}
		for _, rn := range reservedNames {
			if unhexs(n.Name) == rn {
				tagset["name:reserved-key("+rn+")"] = true
			}
		}
		if _, err := strconv.Atoi(unhexs(n.Name)); err == nil {
			tagset["name:digits(may-collide-with-numbered)"] = true
		}
	}
	if in.Via != "cli" {
		tagset[fmt.Sprintf("names=%d", len(in.Names))] = true
	}
	tagset["via:"+in.Via] = true
	nontrivial := false
	var tags []string
	for t := range tagset {
		tags = append(tags, t)
		if strings.HasPrefix(t, "text:") || strings.HasPrefix(t, "name:") || strings.HasPrefix(t, "group:") || t == "kf:C16-member-order" ||
			t == "pipeline:same-line-number-back-to-back" || t == "pipeline:line-in-several-places" || strings.HasPrefix(t, "stateful:") || strings.HasPrefix(t, "width:") {
			nontrivial = true
		}
	}
	sort.Strings(tags)
	return tags, nontrivial
}

func inKnownDomain(in c16In) bool {
	tags, _ := classify(in)
	for _, t := range tags {
		if strings.HasPrefix(t, "kf:") {
			return true
		}
	}
	return false
}

// ---- generators

var numericShapes = []string{"007", "1.", ".5", "-1", "1e5", "00.1", "-0", "+1", "0", "0.0", "0.", "00", "01", "10", "1.50",
	"123.456", "1.2.3", "0123a", "0.5", "000", "0.00", "9007199254740993", "99999999999999999999999999999999", "1e", "1E5", "0x10",
	"1_000", "1,5", ".", "-", "+", "1.e5", "0e0", "-0.0", "1 ", " 1", "1\n", "١٢", "１", "12345678901234567890.12345678901234567890", "0.1", "00.", "0.a", "5", "42"}

var boolShapes = []string{"fal\u017fe", "FAL\u017fE", "Fal\u017fe", "fAL\u017fe", "tr\u017fe", "\u017f", "fal\u017f", "false\u017f", "fal\u017f\u017fe",
	"\u212aelvin", "tru\u212a", "fa\u212ase", "\uff54\uff52\uff55\uff45", "\uff46\uff41\uff4c\uff53\uff45", "fal\u0073\u0307e", "fa\u0142se", "tr\u00fce", "TR\u00dcE", "fal\u01a8e", "t\u0280ue", "true", "false", "TRUE", "FALSE", "True", "False", "tRuE", "fAlSe", "falſe", "FALſE", "true ", " true",
	"tru", "truee", "ſ", "fal\xc5e", "falſ", "fal\xc5\xbf", "fal\xc5\xbfe\xff", "Kelvin", "tʀue", "yes", "null", "nil", "TRUE\x00", "trüe", "FALSΕ"}

var spice = []string{"\"", "\\", "/", "\\\"", "\\u0041", "\\n", "\x00", "\x01", "\x07", "\x08", "\t", "\n", "\x0b", "\x0c", "\r", "\x0e", "\x1b", "\x1f", " ", "\x7f",
	"\u00e9", "\u00a0", "\u2028", "\ufffd", "\U0001F600", "\ufeff", "\x80", "\xff", "\xc3", "\xc0\xaf", "\xed\xa0\x80", "\xf4\x90\x80\x80", "\xe2\x82", "\xe2\x80", "\xe2", "\xf0\x9f", "\xf0\x9f\x98", "\xef\xbb", "\u2029", "\u0085", "\u2026", "{", "}", ",", ":", "'", "[", "]"}

var words = []string{"GET", "POST", "index.html", "200", "404", "abc", "x", "INFO", "error", "user=bob", "10.0.0.1", "a b", "-", "_"}

// clean mode: steer away from the domains of the known findings (other control characters, two or
// more names, names needing escapes); what still falls into one is re-drawn by the caller
var cleanMode, noCtrl bool

func genText(r *Rng) string {
	t := genText0(r)
	if cleanMode || noCtrl {
		b := []byte(t)
		for i := range b {
			if isOtherControl(b[i]) {
				b[i] = "\t\n\r\b\f \"\\"[int(b[i])%8]
			}
		}
		t = string(b)
	}
	return t
}

func genText0(r *Rng) string {
	switch x := r.Intn(20); {
	case x < 3:
		return Pick(r, numericShapes)
	case x < 5:
		return Pick(r, boolShapes)
	case x < 7:
		return Pick(r, words)
	case x < 8:
		return ""
	case x < 10: // raw random bytes
		n := r.Range(1, 8)
		b := make([]byte, n)
		for i := range b {
			b[i] = byte(r.Intn(256))
		}
		return string(b)
	case x < 12: // digits with noise
		n := r.Range(1, 6)
		var sb strings.Builder
		for i := 0; i < n; i++ {
			sb.WriteByte("0000123456789..-+eE"[r.Intn(19)])
		}
		return sb.String()
	default: // words with spice
		var sb strings.Builder
		n := r.Range(1, 5)
		for i := 0; i < n; i++ {
			if r.Chance(1, 2) {
				sb.WriteString(Pick(r, spice))
			} else {
				sb.WriteString(Pick(r, words))
			}
		}
		return sb.String()
	}
}

var wordNames = []string{"src", "line", "src", "line", "a", "b", "ip", "method", "status", "Path", "user_id", "x1", "_", "1", "2", "0", "10", "true", "n", "zz", "A"}
var wildNames = []string{".", "#", ".#", "#.", "@", "src", "line", "a\"b", "back\\slash", "tab\there", "nl\n", "\x01", "sp ace", "été", "\xff", "a:b", "{x}", "", "q\"", "\\", "\x1f\x7f"}

func genName(r *Rng, wild bool) string {
	if wild && r.Chance(1, 2) {
		return Pick(r, wildNames)
	}
	return Pick(r, wordNames)
}

// scripted matcher: a line made of pieces, groups pointing at arbitrary (possibly nested / overlapping / empty / unmatched) spans
func genScripted(r *Rng) c16In {
	ngroups := r.Range(0, 5)
	var line []byte
	var spans [][2]int
	for i := 0; i < ngroups; i++ {
		if r.Chance(1, 8) {
			spans = append(spans, [2]int{-1, -1})
			continue
		}
		if len(spans) > 0 && r.Chance(1, 10) { // a span overlapping earlier text
			a := r.Intn(len(line) + 1)
			b := a + r.Intn(len(line)-a+1)
			spans = append(spans, [2]int{a, b})
			continue
		}
		if len(line) > 0 && r.Chance(2, 3) {
			line = append(line, ' ')
		}
		t := genText(r)
		spans = append(spans, [2]int{len(line), len(line) + len(t)})
		line = append(line, t...)
	}
	if r.Chance(1, 3) {
		line = append(line, " tail"...)
	}
	idx := []int{0, len(line)}
	if r.Chance(1, 15) {
		a := r.Intn(len(line) + 1)
		idx = []int{a, a + r.Intn(len(line)-a+1)}
	}
	for _, s := range spans {
		idx = append(idx, s[0], s[1])
	}
	if r.Chance(1, 25) {
		idx = append(idx, r.Intn(len(line)+1)) // odd length: the last entry is ignored
	}
	nn := []int{0, 0, 1, 1, 1, 1, 2, 2, 2, 3, 3, 4}[r.Intn(12)]
	wild := r.Chance(1, 4)
	if cleanMode {
		nn = r.Intn(2)
		wild = false
	}
	names := map[string]int{}
	for len(names) < nn {
		var gi int
		switch x := r.Intn(12); {
		case x == 0:
			gi = 0
		case x == 1:
			gi = ngroups + 1 + r.Intn(3) // out of range
		case x == 2 && len(names) > 0: // two names for the same group
			ks := make([]string, 0, len(names))
			for k := range names {
				ks = append(ks, k)
			}
			sort.Strings(ks)
			gi = names[Pick(r, ks)]
		default:
			gi = r.Range(1, ngroups+1)
			if gi > ngroups {
				gi = ngroups
			}
		}
		names[genName(r, wild)] = gi
	}
	in := c16In{Line: hex.EncodeToString(line), Indices: idx, Via: "scripted", Names: []c16Name{}}
	for n, i := range names {
		in.Names = append(in.Names, c16Name{hex.EncodeToString([]byte(n)), i})
	}
	return in
}

// indices and the name table as the real matcher reports them
func fromMatcher(via, pattern string, line []byte) (c16In, bool) {
	in := c16In{Via: via, Pattern: hex.EncodeToString([]byte(pattern)), Line: hex.EncodeToString(line), Names: []c16Name{}}
	f, err := factoryOf(in)
	if err != nil {
		return in, false
	}
	m := f.CreateInstance()
	idx := m.FindSubmatchIndex(line)
	if len(idx) == 0 {
		return in, false
	}
	in.Indices = append([]int(nil), idx...)
	for n, i := range m.SubexpNameTable() {
		in.Names = append(in.Names, c16Name{hex.EncodeToString([]byte(n)), i})
	}
	return in, true
}

// real regexp: fields separated by 0x1e, each field one (named or unnamed, possibly optional) group
func genRegex(r *Rng) (c16In, bool) {
	k := r.Range(1, 5)
	var pat strings.Builder
	pat.WriteString(`(?s)^`)
	var line []byte
	used := map[string]bool{}
	for i := 0; i < k; i++ {
		if i > 0 {
			pat.WriteString(`\x1e`)
			line = append(line, 0x1e)
		}
		t := strings.ReplaceAll(genText(r), "\x1e", "")
		line = append(line, t...)
		name := ""
		if r.Chance(3, 5) && !(cleanMode && len(used) > 0) {
			name = Pick(r, wordNames)
			if used[name] && r.Chance(9, 10) {
				name = ""
			}
			used[name] = true
		}
		body := `[^\x1e]*`
		if r.Chance(1, 6) {
			body = `[^\x1e]+` // with the `?` below: unmatched when the field is empty
		}
		if name != "" {
			pat.WriteString(`(?P<` + name + `>` + body + `)`)
		} else {
			pat.WriteString(`(` + body + `)`)
		}
		if strings.HasSuffix(body, "+") {
			pat.WriteString(`?`)
		}
	}
	pat.WriteString(`$`)
	return fromMatcher("regex", pat.String(), line)
}

// real dissect: %{name} tokens separated by 0x1e; names are arbitrary text without '}'
func genDissect(r *Rng) (c16In, bool) {
	k := r.Range(1, 4)
	var pat strings.Builder
	var line []byte
	used := map[string]bool{}
	for i := 0; i < k; i++ {
		if i > 0 {
			pat.WriteString("\x1e")
			line = append(line, 0x1e)
		}
		t := strings.ReplaceAll(genText(r), "\x1e", "")
		line = append(line, t...)
		name := strings.NewReplacer("}", "", "?", "", "%", "").Replace(genName(r, !cleanMode))
		if name == "" || used[name] {
			name = fmt.Sprintf("f%d", i)
		}
		used[name] = true
		if r.Chance(1, 6) || (cleanMode && i > 0) {
			pat.WriteString("%{}")
		} else {
			pat.WriteString("%{" + name + "}")
		}
	}
	return fromMatcher("dissect", pat.String(), line)
}

// `rare expression`: 0..4 -d data, 0..4 -k pairs.  Arguments cannot hold NUL (argv) and the flag
// library splits slice values at commas, so neither is generated; a key has no '='.
func genCli(r *Rng) c16In {
	clean := func(s string) string {
		// (the flag library copies slice values through encoding/json: invalid UTF-8 in an argument is already U+FFFD when rare sees it)
		// and trims white space around each value
		return strings.TrimSpace(strings.ToValidUTF8(strings.NewReplacer("\x00", "", ",", ";").Replace(s), "\uFFFD"))
	}
	in := c16In{Via: "cli", Names: []c16Name{}, Indices: []int{}}
	for i, n := 0, r.Intn(5); i < n; i++ {
		in.Data = append(in.Data, hex.EncodeToString([]byte(clean(genText(r)))))
	}
	nk := []int{0, 1, 1, 2, 3, 4}[r.Intn(6)]
	if cleanMode {
		nk = r.Intn(2)
	}
	used := map[string]bool{}
	for len(in.Keys) < nk {
		k := strings.ReplaceAll(clean(genName(r, !cleanMode)), "=", "")
		if used[k] {
			continue
		}
		used[k] = true
		in.Keys = append(in.Keys, c16KV{hex.EncodeToString([]byte(k)), hex.EncodeToString([]byte(clean(genText(r))))})
	}
	return in
}

// in the scripted batch order with one worker: is this line matched directly after a match that has
// the same line number but another source?
func pipelineCollides(in c16In) bool {
	sc := in.Scenario
	if sc.Files {
		// files are read one after the other (or concurrently): decided on the sequential order
		prevNum, prevSrc := -1, -1
		re, err := regexp.Compile(unhexs(in.Pattern))
		if err != nil {
			return false
		}
		for si, src := range sc.Sources {
			for li, l := range src {
				if !re.MatchString(unhexs(l)) {
					continue
				}
				if l == in.Line && prevNum == li && prevSrc != si {
					return true
				}
				prevNum, prevSrc = li, si
			}
		}
		return false
	}
	re, err := regexp.Compile(unhexs(in.Pattern))
	if err != nil {
		return false
	}
	pos := make([]int, len(sc.Sources))
	prevNum, prevSrc := -1, -1
	for _, si := range sc.Order {
		if si < 0 || si >= len(sc.Sources) {
			continue
		}
		hi := pos[si] + sc.Batch
		if hi > len(sc.Sources[si]) {
			hi = len(sc.Sources[si])
		}
		for li := pos[si]; li < hi; li++ {
			l := sc.Sources[si][li]
			if !re.MatchString(unhexs(l)) {
				continue
			}
			if l == in.Line && prevNum == li && prevSrc != si {
				return true
			}
			prevNum, prevSrc = li, si
		}
		pos[si] = hi
	}
	return false
}

// one pipeline scenario -> one case per distinct matching line.
// shape 0: every source has one line; 1: batches of one line, sources interleaved; 2: only the first
// line of every source matches; 3: free.
func genPipeline(r *Rng, shape int) []c16In {
	k := r.Range(1, 3)
	var pat strings.Builder
	pat.WriteString(`(?s)^`)
	named := 0
	used := map[string]bool{}
	for i := 0; i < k; i++ {
		if i > 0 {
			pat.WriteString(`\x1e`)
		}
		name := ""
		if r.Chance(1, 2) && !(cleanMode && named > 0) {
			name = Pick(r, wordNames)
			if used[name] {
				name = ""
			}
		}
		if name != "" {
			used[name] = true
			named++
			pat.WriteString(`(?P<` + name + `>[^\x1e]*)`)
		} else {
			pat.WriteString(`([^\x1e]*)`)
		}
	}
	pat.WriteString(`$`)
	files := r.Chance(1, 3)
	fix := func(t string) string {
		t = strings.ReplaceAll(t, "\x1e", "")
		if files {
			t = strings.TrimRight(strings.ReplaceAll(t, "\n", " "), "\r")
		}
		return t
	}
	mkLine := func() string {
		parts := make([]string, k)
		for i := range parts {
			parts[i] = fix(genText(r))
		}
		l := strings.Join(parts, "\x1e")
		if files {
			l = strings.TrimRight(l, "\r")
		}
		return l
	}
	nomatch := strings.Repeat("\x1e", k) + "no match"
	nsrc := r.Range(2, 4)
	sc := &c16Scenario{Files: files, Workers: r.Range(2, 4), Reps: 2, Batch: r.Range(1, 3)}
	var pool []string
	for si := 0; si < nsrc; si++ {
		nl := r.Range(1, 4)
		if shape == 0 {
			nl = 1
		}
		var src []string
		for li := 0; li < nl; li++ {
			var l string
			switch {
			case shape == 2 && li > 0:
				l = nomatch
			case shape == 3 && r.Chance(1, 4):
				l = nomatch
			case len(pool) > 0 && r.Chance(1, 4):
				l = Pick(r, pool) // the same line again, somewhere else
			default:
				l = mkLine()
				pool = append(pool, l)
			}
			src = append(src, hex.EncodeToString([]byte(l)))
		}
		sc.Sources = append(sc.Sources, src)
	}
	if shape == 1 {
		sc.Batch = 1
	}
	// batch order: a random interleaving that keeps every source's own order
	left := make([]int, nsrc)
	total := 0
	for si, src := range sc.Sources {
		left[si] = (len(src) + sc.Batch - 1) / sc.Batch
		total += left[si]
	}
	rr := 0
	for len(sc.Order) < total {
		si := r.Intn(nsrc)
		if shape == 1 { // round robin: line i of every source back to back
			si = rr % nsrc
			rr++
		}
		if left[si] > 0 {
			sc.Order = append(sc.Order, si)
			left[si]--
		}
	}
	var out []c16In
	seen := map[string]bool{}
	for _, src := range sc.Sources {
		for _, l := range src {
			if seen[l] {
				continue
			}
			seen[l] = true
			in, ok := fromMatcher("pipeline", pat.String(), []byte(unhexs(l)))
			if !ok {
				continue
			}
			in.Scenario = sc
			out = append(out, in)
		}
	}
	return out
}

// two passes over the same random stream: the first only collects the inputs (the generator never
// looks at an output), which are then evaluated by the batch child; the second builds the cases
var collecting bool
var pendingIns []c16In

func c16Gen(r *Rng, n int, tier string) []Case {
	saved := *r
	collecting, pendingIns = true, nil
	c16GenBody(r, n, tier)
	collecting = false
	prefetchRaw(pendingIns)
	pendingIns = nil
	*r = saved
	return c16GenBody(r, n, tier)
}

func c16GenBody(r *Rng, n int, tier string) []Case {
	var cases []Case
	// exhaustive: every byte value alone in a named group and embedded in a numbered group
	for b := 0; b < 256; b++ {
		line := []byte{byte(b), 'a', byte(b), 'b'}
		cases = append(cases, c16Case(c16In{Names: []c16Name{{hex.EncodeToString([]byte("n")), 1}}, Line: hex.EncodeToString(line),
			Indices: []int{0, 4, 0, 1, 1, 4}, Via: "scripted"}))
	}
	// every numeric and boolean shape alone, under 0, 1 and 2 names
	for _, lst := range [][]string{numericShapes, boolShapes} {
		for i, s := range lst {
			if s == "" {
				continue
			}
			in := c16In{Line: hex.EncodeToString([]byte(s)), Indices: []int{0, len(s), 0, len(s)}, Via: "scripted", Names: []c16Name{}}
			switch i % 3 {
			case 1:
				in.Names = []c16Name{{hex.EncodeToString([]byte("v")), 1}}
			case 2:
				in.Names = []c16Name{{hex.EncodeToString([]byte("v")), 1}, {hex.EncodeToString([]byte("all")), 0}}
			}
			cases = append(cases, c16Case(in))
		}
	}
	// names: 0..4 names over the same two groups, in every view
	for k := 0; k <= 4; k++ {
		in := c16In{Line: hex.EncodeToString([]byte("GET 200")), Indices: []int{0, 7, 0, 3, 4, 7}, Via: "scripted", Names: []c16Name{}}
		for j := 0; j < k; j++ {
			in.Names = append(in.Names, c16Name{hex.EncodeToString([]byte(wordNames[(j*5+2)%len(wordNames)])), 1 + j%2})
		}
		cases = append(cases, c16Case(in))
	}
	// pipeline scenarios of every shape, outside the domains of the known findings
	cleanMode = true
	for i := 0; i < 8; i++ {
		for _, in := range genPipeline(r, i%4) {
			if !inKnownDomain(in) {
				cases = append(cases, c16Case(in))
			}
		}
	}
	// invalid UTF-8 built from truncated multi-byte sequences: every proper prefix of a 2-, 3- and 4-byte
	// encoding at the end of the value, at its start, before an ASCII byte and alone; complete U+2028,
	// U+2029, U+0085, U+FEFF; as a capture (the line then ends / starts the same way) and as a member name
	{
		hx := func(x string) string { return hex.EncodeToString([]byte(x)) }
		var vals []string
		for _, p := range truncatedTails {
			vals = append(vals, "abc"+p, p+"abc", "ab"+p+"c", p)
		}
		for _, c := range []string{"\u2028", "\u2029", "\u0085", "\ufeff"} {
			vals = append(vals, c, "abc"+c, "ab"+c+"c")
		}
		for i, v := range vals {
			line := "x " + v
			if i%2 == 1 {
				line = v + " x"
			}
			at := strings.Index(line, v)
			cases = append(cases, c16Case(c16In{Names: []c16Name{{hx("v"), 1}}, Line: hx(line), Indices: []int{0, len(line), at, at + len(v)}, Via: "scripted"}))
			cases = append(cases, c16Case(c16In{Names: []c16Name{{hx(v), 1}}, Line: hx("GET 200"), Indices: []int{0, 7, 4, 7}, Via: "scripted"}))
		}
		for _, v := range []string{"abc\xe2\x80", "\xf0\x9f", "\u2028"} { // through the real matchers as well
			if in, ok := fromMatcher("regex", `^(?s)(?P<v>.*) (\d+)$`, []byte(v+" 200")); ok {
				cases = append(cases, c16Case(in))
			}
			if in, ok := fromMatcher("dissect", "%{n} %{v"+strings.ReplaceAll(v, "}", "")+"}", []byte("200 "+v)); ok {
				cases = append(cases, c16Case(in))
			}
		}
	}
	// groups called like the context's own keys: the member is the capture, not the source name / line number / a view
	{
		hx := func(x string) string { return hex.EncodeToString([]byte(x)) }
		line := "at parser.go:42 GET"
		idx := []int{0, len(line), 3, 12, 13, 15, 16, 19}
		for _, rn := range reservedNames {
			cases = append(cases, c16Case(c16In{Names: []c16Name{{hx(rn), 1}}, Line: hx(line), Indices: idx, Via: "scripted"}))
			cases = append(cases, c16Case(c16In{Names: []c16Name{{hx(rn), 2}, {hx("verb"), 3}}, Line: hx(line), Indices: idx, Via: "scripted"}))
		}
		all := []c16Name{}
		for i, rn := range reservedNames {
			all = append(all, c16Name{hx(rn), 1 + i%3})
		}
		cases = append(cases, c16Case(c16In{Names: all, Line: hx(line), Indices: idx, Via: "scripted"}))
		for _, pm := range [][2]string{
			{"regex", `at (?P<src>\S+):(?P<line>\d+)`}, {"regex", `at (?P<line>\S+):(\d+) (?P<src>\w+)`},
			{"dissect", "at %{src}:%{line} %{verb}"}, {"dissect", "at %{line}:%{src} %{}"},
			{"dissect", "at %{.}:%{#} %{@}"}, {"dissect", "%{.#} %{#.}:%{src} %{line}"},
		} {
			if in, ok := fromMatcher(pm[0], pm[1], []byte(line)); ok {
				cases = append(cases, c16Case(in))
			}
		}
	}
	// width: every boundary number of capture groups, unnamed and named (member names itoa(i) up to four digits)
	cleanMode, noCtrl = true, true
	for _, w := range wideWidths {
		for _, named := range []bool{false, true} {
			if named && w == 0 {
				continue
			}
			cleanMode = !(named && w%2 == 0) // even widths also with four names (first, mid, g100, last)
			cases = append(cases, c16Case(genWide(r, w, named)))
		}
	}
	cleanMode = true
	for _, wr := range []struct {
		via string
		n   int
	}{{"regex", 130}, {"dissect", 105}, {"regex", 100}, {"dissect", 99}} {
		if in, ok := genWideReal(r, wr.via, wr.n); ok {
			cases = append(cases, c16Case(in))
		}
	}
	for _, in := range wideSeqScenario(r) {
		cases = append(cases, c16Case(in))
	}
	cleanMode, noCtrl = false, false
	// fresh start-ups: a newly compiled regexp with 4..8 named groups under 8 workers, hundreds of times
	nstart := 3
	if tier == "thorough" {
		nstart = 12
	}
	cleanMode, noCtrl = false, true
	for i := 0; i < nstart; i++ {
		for _, in := range genStartup(r) {
			cases = append(cases, c16Case(in))
		}
	}
	// one compiled expression over many matches: sequences (Workers: 1) and concurrent workers
	nseq, nconc := 8, 3
	if tier == "thorough" {
		nseq, nconc = 60, 12
	}
	for i := 0; i < nseq+nconc; i++ {
		cleanMode = i%4 != 3
		noCtrl = cleanMode
		kind := "sequence"
		if i >= nseq {
			kind = "concurrent"
		}
		for _, in := range genSeqScenario(r, kind) {
			cases = append(cases, c16Case(in))
		}
	}
	cleanMode, noCtrl = false, false
	base := len(cases)
	for len(cases) < base+n {
		var in c16In
		ok := true
		cleanMode = r.Chance(1, 2)
		noCtrl = r.Chance(1, 2)
		if r.Chance(1, 25) { // about a sixth of the cases: every distinct matching line of a pipeline scenario
			cleanMode = r.Chance(3, 4)
			for _, pin := range genPipeline(r, r.Intn(4)) {
				if !(cleanMode && inKnownDomain(pin)) {
					cases = append(cases, c16Case(pin))
				}
			}
			continue
		}
		if r.Chance(1, 60) { // a wide match of a boundary width
			cases = append(cases, c16Case(genWide(r, Pick(r, wideWidths[:11]), r.Bool())))
			continue
		}
		switch x := r.Intn(12); {
		case x < 6:
			in = genScripted(r)
		case x < 8:
			in, ok = genRegex(r)
		case x < 10:
			in, ok = genDissect(r)
		default:
			in = genCli(r)
		}
		if !ok || (cleanMode && inKnownDomain(in)) {
			continue
		}
		cases = append(cases, c16Case(in))
	}
	cleanMode, noCtrl = false, false
	return cases
}

var _ = bytes.Equal

func main() {
	if len(os.Args) >= 2 && os.Args[1] == "seqchild" {
		seqChildMain()
		return
	}
	if len(os.Args) >= 2 && os.Args[1] == "startupchild" {
		startupChildMain()
		return
	}
	if len(os.Args) >= 2 && os.Args[1] == "rawbatch" {
		rawBatchMain()
		return
	}
	if len(os.Args) >= 2 && os.Args[1] == "pipechild" {
		pipeChildMain()
		return
	}
	Main(&Prop{
		Name:   "C16",
		Header: "From Coq Require Import List NArith ZArith String.\nFrom RareV Require Import Corr.C16Case.\nImport ListNotations.\nOpen Scope Z_scope. Open Scope string_scope.\n",
		Rule: "every evaluation runs in a child process of the harness (a crash or hang is the observation `no text` of that one case). fixed part: values, member names and lines with every proper prefix of a 2-, 3- and 4-byte UTF-8 encoding (c3, e2, e2 80, e2 82, ef, ef bb, f0, f0 9f, f0 9f 98, f4, f4 8f, f4 8f bf) at the end, at the start, before an ASCII byte and alone, and complete U+2028, U+2029, U+0085, U+FEFF; every byte value 0..255 alone in a named group and embedded in a numbered group; every numeric shape (007, 1., .5, -1, 1e5, 00.1, -0, +1, ...) and boolean shape (ASCII case variants; near-misses that are equal only under Unicode folding or not at all: U+017F long s, Kelvin sign U+212A, full-width letters, combining marks, look-alikes) alone under 0/1/2 names; 0..4 names over the same groups. " +
			"pipeline part (8 fixed-shape scenarios, then about 1/6 of the seeded cases): 2..4 sources whose line numbers all start at 1 (one line each / one-line batches interleaved round robin / only first lines match / free; lines repeated across sources) are pushed through ONE extractor.New with a real regexp matcher and a JSON view as the expression, with Workers 1 and 2..4, twice each, either as scripted InputBatches in a generated interleaving or as temp files under $VERIF_WORK read by batchers.OpenFilesToChan; every emitted match is grouped by its line and each distinct matching line is one case: all texts ever rendered for that line (whatever was rendered before it) must be the one text of its own captures. " +
			"width part: scripted matches with 0, 1, 9, 10, 11, 99, 100, 101, 110, 130, 450 and 1000 capture groups (fields of words, numbers, empty texts, unmatched groups), unnamed and named (names on the last / first / middle / 100th group), a regexp with 130 and 100 groups and a dissect pattern with 105 and 99 tokens, and one sequence scenario over lines of width 0..450 with {json <view> <index>} queries for the indices 0, 9, 10, 11, 99, 100, 101, 110, 129, 449, 450: the member name of group i is its decimal numeral for every i. " +
			"start-up part (3 scenarios in quick, 12 in thorough; one case per line): a regexp with 4..8 named groups is compiled afresh and handed to an extractor with 8 workers over 24 one-line batches, 300 times per view (first with one worker), and 6 times per view in a build with the race detector (bin/C16race, halt on the first report); all texts any worker ever rendered for a line must be the one text of that line; a runtime abort or a race report fails the scenario's cases. " +
			"stateful part (8 sequence + 3 concurrent scenarios in quick, 60 + 12 in thorough; one case per distinct line): {.}, {#}, {.#} and {json <view> <member>} queries are each compiled ONCE, optimised and unoptimised, and evaluated (inside an extractor.IgnoreSet probe, i.e. on the workers' real expression contexts, besides the extractor's own shared key builder) over 5..9 different matches of one scripted matcher — an all-empty probe-like context first, different group counts, unmatched groups, lines sharing the text of group 0, texts needing escapes followed by plain ones, adjacent repeats — either as one sequence with Workers 1 (every evaluation also compared with a fresh compile) or from 4..8 workers at once behind a start barrier, 2500 evaluations of every expression per worker (every 16th compared with a fresh compile); all texts ever produced for a line must be the one text of that line alone, and every query must give the member's text. " +
			"seeded part: 1/6 `rare expression -r -n -d ... -k k=v` run in-process through cmd.GetSupportedCommands (0..4 data, 0..4 keys, the -k order rotated between evaluations; no NUL, no comma, no '=' in keys, valid UTF-8 only, no surrounding white space: what the flag library passes on unchanged); of the rest 60% scripted matcher (0..5 groups with nested/overlapping/empty/unmatched spans, 0..4 names incl. the context's own keys src, line, ., #, .#, #., @ (source name and line numbers differ from every capture), digits-only, duplicate group, out-of-range index, names needing escapes), 20% real regexp ((?P<name>...) fields separated by 0x1e, optional groups), 20% real dissect (arbitrary token names). " +
			"group texts: numeric shapes, boolean shapes, log-like words, raw random bytes, digit noise, words mixed with quotes/backslashes/control characters/non-ASCII/invalid UTF-8. " +
			"every view ({.}, {#}, {.#}) of every case is evaluated 50 times through extractor.New on one batch; the observable is the set of distinct texts per view plus encoding/json's verdict. " +
			"distinct = distinct (names, line, indices, matcher); non-trivial = at least one of: a text with control/quote/backslash/DEL/non-ASCII/invalid UTF-8, a numeric or boolean (look-alike) text, an unmatched group, a name that needs escaping / is digits-only / points out of range, two or more names, a pipeline line rendered right after a match with the same line number from another source, a line occurring in several places of a pipeline run.",
		Gen: c16Gen,
		Replay: func(d json.RawMessage) (Case, error) {
			var doc struct {
				Input c16In `json:"input"`
			}
			if err := json.Unmarshal(d, &doc); err != nil {
				return Case{}, err
			}
			if doc.Input.Names == nil {
				doc.Input.Names = []c16Name{}
			}
			return c16Case(doc.Input), nil
		},
		Shard: 100,
	})
}
