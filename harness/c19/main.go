package main

// C19: pkg/expressions/stdmath — Compile (tokenizer, precedence climbing, literals, simplify) and Eval.
// For every generated formula F (a list of lexical pieces) the harness
//   * compiles F with the real stdmath.Compile (under recover) and prints the compiled tree
//     (hook stdmath.VerifDump) for the structural comparison with the Coq model;
//   * builds F' = F with every numeric literal replaced by a fresh boxed variable, compiles it, and
//     checks at several bindings that  Eval(F) == Eval(F' + constants bound) == reference
//     evaluation of the dumped tree of F'  bit for bit (NaNs identified). The reference
//     evaluator mirrors coq/Model/MathEval.v (meval/binop, repaired integer operators) with Go's
//     math functions. F' itself is emitted as a case of its own, so its tree (which contains no
//     constant, hence no folding) is compared exactly with the model's parse tree by Coq.

import (
	"encoding/json"
	"fmt"
	"math"
	"strconv"
	"strings"
	"sync"
	"time"

	"rare/pkg/expressions"
	"rare/pkg/expressions/stdlib"
	"rare/pkg/expressions/stdmath"
	. "verifh/lib"
)

// ---------------------------------------------------------------- pieces
const (
	pNum   = iota // numeric literal
	pVar          // variable: bare name, [name], [n]
	pOp           // binary operator (never - )
	pMinus        // "-": unary or binary by position
	pBang         // "!": unary by position, else part of a literal
	pFn           // function name (a unary operator when followed by "(")
	pL            // (
	pR            // )
	pSp           // blank
	pRaw          // anything else (malformed stream)
)

type piece struct {
	K int    `json:"k"`
	T string `json:"t"`
}

type c19In struct {
	Pieces []piece `json:"pieces"`
}
type c19Out struct {
	Formula  string `json:"formula"`
	Outcome  string `json:"outcome"` // ok | error | panic
	Tree     string `json:"tree,omitempty"`
	Err      string `json:"err,omitempty"`
	Paired   string `json:"constant_free_formula,omitempty"`
	ValsOK   bool   `json:"values_agree"`
	ValsNote string `json:"values_note,omitempty"`
	Template string `json:"template,omitempty"`       // the {! ..} expression compiled once for the shared-object runs
	SeqSteps int    `json:"sequence_steps,omitempty"` // evaluations of the ONE compiled formula over a sequence of bindings
	Conc     string `json:"concurrent,omitempty"`     // goroutines x evaluations of the ONE compiled formula at once
}
type c19Desc struct {
	Input c19In  `json:"input"`
	Impl  c19Out `json:"impl"`
}

func join(ps []piece) string {
	var sb strings.Builder
	for _, p := range ps {
		sb.WriteString(p.T)
	}
	return sb.String()
}

// ---------------------------------------------------------------- implementation under recover
type tree struct {
	kind string // val named idx un bin
	bits uint64
	name string
	idx  int64
	kids []*tree
}

func compileImpl(f string) (ex stdmath.Expr, outcome, errText string) {
	defer func() {
		if r := recover(); r != nil {
			ex, outcome, errText = nil, "panic", fmt.Sprint(r)
		}
	}()
	e, err := stdmath.Compile(f)
	if err != nil {
		return nil, "error", err.Error()
	}
	return e, "ok", ""
}

type bindCtx struct {
	names map[string]float64
	idx   map[int]float64
	def   func(string) float64
}

func (c *bindCtx) GetMatch(i int) float64 {
	if v, ok := c.idx[i]; ok {
		return v
	}
	return c.def("#" + strconv.Itoa(i))
}
func (c *bindCtx) GetKey(k string) float64 {
	if v, ok := c.names[k]; ok {
		return v
	}
	return c.def(k)
}

func evalImpl(e stdmath.Expr, c stdmath.Context) (v float64, panicked bool) {
	defer func() {
		if r := recover(); r != nil {
			v, panicked = 0, true
		}
	}()
	return e.Eval(c), false
}

// ---------------------------------------------------------------- S-expression of VerifDump
type sx struct {
	s string
	i int
}

func (p *sx) ws() {
	for p.i < len(p.s) && p.s[p.i] == ' ' {
		p.i++
	}
}
func (p *sx) word() string {
	p.ws()
	j := p.i
	for p.i < len(p.s) && p.s[p.i] != ' ' && p.s[p.i] != ')' && (p.s[p.i] != '(' || p.i == j) {
		p.i++
	}
	return p.s[j:p.i]
}
func (p *sx) parse() (*tree, error) {
	p.ws()
	if p.i >= len(p.s) || p.s[p.i] != '(' {
		return nil, fmt.Errorf("dump: expected ( at %d in %q", p.i, p.s)
	}
	p.i++
	t := &tree{kind: p.word()}
	switch t.kind {
	case "val":
		b, err := strconv.ParseUint(p.word(), 16, 64)
		if err != nil {
			return nil, err
		}
		t.bits = b
	case "named":
		p.ws()
		q, err := strconv.QuotedPrefix(p.s[p.i:])
		if err != nil {
			return nil, err
		}
		p.i += len(q)
		t.name, _ = strconv.Unquote(q)
	case "idx":
		n, err := strconv.ParseInt(p.word(), 10, 64)
		if err != nil {
			return nil, err
		}
		t.idx = n
	case "un", "bin":
		t.name = p.word()
		n := 1
		if t.kind == "bin" {
			n = 2
		}
		for k := 0; k < n; k++ {
			c, err := p.parse()
			if err != nil {
				return nil, err
			}
			t.kids = append(t.kids, c)
		}
	default:
		return nil, fmt.Errorf("dump: unknown node %q in %q", t.kind, p.s)
	}
	p.ws()
	if p.i >= len(p.s) || p.s[p.i] != ')' {
		return nil, fmt.Errorf("dump: expected ) at %d in %q", p.i, p.s)
	}
	p.i++
	return t, nil
}

func coqFloat(bits uint64) string {
	neg := bits>>63 == 1
	e := int((bits >> 52) & 0x7ff)
	frac := bits & (1<<52 - 1)
	switch {
	case e == 0x7ff && frac != 0:
		return "Vnan"
	case e == 0x7ff:
		return "(Vinf " + B(neg) + ")"
	case e == 0:
		return fmt.Sprintf("(Vf %s %d (-1074)%%Z)", B(neg), frac)
	default:
		return fmt.Sprintf("(Vf %s %d (%d)%%Z)", B(neg), frac|1<<52, e-1075)
	}
}

func (t *tree) coq() string {
	switch t.kind {
	case "val":
		return coqFloat(t.bits)
	case "named":
		return "(Nm " + HS(t.name) + ")"
	case "idx":
		return fmt.Sprintf("(Ix (%d)%%Z)", t.idx)
	case "un":
		return "(U " + HS(t.name) + " " + t.kids[0].coq() + ")"
	default:
		return "(B " + HS(t.name) + " " + t.kids[0].coq() + " " + t.kids[1].coq() + ")"
	}
}

// ---------------------------------------------------------------- reference evaluation (mirrors MathEval.v)
var refUn = map[string]func(float64) float64{
	"-": func(f float64) float64 { return -f }, "abs": math.Abs,
	"sin": math.Sin, "asin": math.Asin, "cos": math.Cos, "acos": math.Acos, "tan": math.Tan, "atan": math.Atan,
	"sqrt": math.Sqrt, "floor": math.Floor, "ceil": math.Ceil, "round": math.Round,
	"exp": math.Exp, "exp2": math.Exp2, "log": math.Log, "log10": math.Log10, "log2": math.Log2,
	"!": func(f float64) float64 { return cond(!(f != 0)) },
}

func cond(b bool) float64 {
	if b {
		return 1
	}
	return 0
}

type refState struct {
	fault   bool // zero divisor of % or negative shift count met (domain of C19-int-ops-panic)
	unknown bool
}

func (st *refState) eval(t *tree, c stdmath.Context) float64 {
	switch t.kind {
	case "val":
		return math.Float64frombits(t.bits)
	case "named":
		return c.GetKey(t.name)
	case "idx":
		return c.GetMatch(int(t.idx))
	case "un":
		f, ok := refUn[t.name]
		v := st.eval(t.kids[0], c)
		if !ok {
			st.unknown = true
			return 0
		}
		return f(v)
	}
	l := st.eval(t.kids[0], c)
	r := st.eval(t.kids[1], c)
	switch t.name {
	case "+":
		return l + r
	case "*":
		return l * r
	case "-":
		return l - r
	case "/":
		return l / r
	case "^":
		return math.Pow(l, r)
	case "%":
		if int64(r) == 0 {
			st.fault = true
			return math.NaN()
		}
		return float64(int64(l) % int64(r))
	case "<<":
		if int64(r) < 0 {
			st.fault = true
			return math.NaN()
		}
		return float64(int64(l) << uint64(int64(r)))
	case ">>":
		if int64(r) < 0 {
			st.fault = true
			return math.NaN()
		}
		return float64(int64(l) >> uint64(int64(r)))
	case "&":
		return float64(int64(l) & int64(r))
	case "|":
		return float64(int64(l) | int64(r))
	case "<":
		return cond(l < r)
	case "<=":
		return cond(l <= r)
	case ">":
		return cond(l > r)
	case ">=":
		return cond(l >= r)
	case "==":
		return cond(l == r)
	case "&&":
		return cond(l != 0 && r != 0)
	case "||":
		return cond(l != 0 || r != 0)
	}
	st.unknown = true
	return 0
}

func sameBits(a, b float64) bool {
	if math.IsNaN(a) || math.IsNaN(b) {
		return math.IsNaN(a) && math.IsNaN(b)
	}
	return math.Float64bits(a) == math.Float64bits(b)
}

// ---------------------------------------------------------------- bindings
var pool = []float64{0, 1, -1, 2, 0.5, -2.5, 3, 1e300, 7, -3, 64, 1e-300, math.Copysign(0, -1), 100, 63, 5, math.Inf(1), -1e300, 0.1, 4, 4e18, -4e18}

func hashStr(s string) int {
	h := uint32(2166136261)
	for i := 0; i < len(s); i++ {
		h = (h ^ uint32(s[i])) * 16777619
	}
	return int(h % 1000003)
}

const nProfiles = 6

func profile(k int) func(string) float64 {
	switch k {
	case 0:
		return func(string) float64 { return 0 } // the probe context of simplify
	case 1:
		return func(s string) float64 { return []float64{-1, -2.5, -3, -1e300}[hashStr(s)%4] }
	case 2:
		return func(s string) float64 { return []float64{2, 3, 5, 7, 1, 4}[hashStr(s)%6] } // small positive integers
	}
	return func(s string) float64 { return pool[(hashStr(s)+k*7)%len(pool)] }
}

// the float64 a numeric literal denotes: exactly compileToken's two strconv calls
func literalValue(s string) (float64, bool) {
	if v, err := strconv.ParseInt(s, 0, 64); err == nil {
		return float64(v), true
	}
	if v, err := strconv.ParseFloat(s, 64); err == nil {
		return v, true
	}
	return 0, false
}

// ---------------------------------------------------------------- lexical classification (for F' and tags only)
func significant(ps []piece, i, dir int) int {
	for j := i + dir; j >= 0 && j < len(ps); j += dir {
		if ps[j].K != pSp {
			return j
		}
	}
	return -1
}

// unaryAt[i]: piece i is a "-" or "!" in unary position (tokenizer.go: builder empty and no token yet
// at this nesting level, or the last token is an operator)
func classify(ps []piece) (unaryAt []bool, dangling bool) {
	unaryAt = make([]bool, len(ps))
	type lvl struct {
		last    int // 0 none, 1 op, 2 other
		sbEmpty bool
	}
	st := []lvl{{0, true}}
	top := func() *lvl { return &st[len(st)-1] }
	flush := func() {
		if !top().sbEmpty {
			top().sbEmpty = true
			top().last = 2
		}
	}
	for i, p := range ps {
		switch p.K {
		case pSp:
		case pL:
			flush()
			st = append(st, lvl{0, true})
		case pR:
			flush()
			if len(st) > 1 {
				st = st[:len(st)-1]
			}
			top().last = 2
		case pOp:
			flush()
			top().last = 1
		case pMinus, pBang:
			if top().sbEmpty && (top().last == 0 || top().last == 1) {
				unaryAt[i] = true
				top().last = 2
				n := significant(ps, i, 1)
				if n < 0 || ps[n].K == pR {
					dangling = true
				}
			} else if p.K == pMinus {
				flush()
				top().last = 1
			} else {
				top().sbEmpty = false
			}
		default:
			top().sbEmpty = false
		}
	}
	return
}

// F': numeric literals replaced by boxed variables; ok=false when some literal is not lexically isolated
func constantFree(ps []piece, unaryAt []bool) (out []piece, consts map[string]float64, ctexts map[string]string, ok bool) {
	consts = map[string]float64{}
	ctexts = map[string]string{}
	out = make([]piece, len(ps))
	copy(out, ps)
	n := 0
	for i, p := range ps {
		if p.K != pNum {
			continue
		}
		v, isNum := literalValue(p.T)
		if !isNum {
			return nil, nil, nil, false
		}
		if a := significant(ps, i, -1); a >= 0 {
			k := ps[a].K
			if !(k == pOp || k == pL || k == pR || (k == pMinus) || (k == pBang && unaryAt[a])) {
				return nil, nil, nil, false
			}
		}
		if b := significant(ps, i, 1); b >= 0 {
			k := ps[b].K
			if !(k == pOp || k == pL || k == pR || k == pMinus) {
				return nil, nil, nil, false
			}
		}
		name := fmt.Sprintf("k%d", n)
		n++
		consts[name] = v
		ctexts[name] = p.T
		out[i] = piece{pVar, "[" + name + "]"}
	}
	return out, consts, ctexts, true
}

// ---------------------------------------------------------------- one compiled formula, many evaluations
// rare compiles a formula once and evaluates it for every match, from all worker goroutines.
// The value on a binding must not depend on earlier evaluations (a memo, a scratch slice kept in
// the compiled object) nor on evaluations running at the same time. Reference for every single
// evaluation: the reference evaluator on the tree dumped from the fresh compile (the tree Coq
// compares with the model), at that binding alone.

type kbCtx struct {
	names map[string]string
	idx   map[int]string
}

func (c *kbCtx) GetMatch(i int) string  { return c.idx[i] }
func (c *kbCtx) GetKey(k string) string { return c.names[k] }

var _ expressions.KeyBuilderContext = &kbCtx{}

func (t *tree) vars(names map[string]bool, idx map[int]bool) {
	switch t.kind {
	case "named":
		names[t.name] = true
	case "idx":
		idx[int(t.idx)] = true
	}
	for _, k := range t.kids {
		k.vars(names, idx)
	}
}

func (t *tree) hasOp() bool { return t.kind == "un" || t.kind == "bin" }

// a binding: value of every variable, or missing (the {! ..} context has no such key; the bare
// stdmath context answers 0 like SimpleContext)
type binding struct {
	label   string
	val     func(string) float64
	missing func(string) bool
	text    func(string) string // when set: the decimal TEXT the {! ..} context holds; the value is strconv.ParseFloat of it
}

// ---- decimal texts as bindings: what a matched field looks like. Shortest round-trip texts of
// arbitrary float64 values (15-17 significant digits), neighbours of powers of ten, and long digit
// strings (17-19 digits, leading and trailing zeros). The value of a text is strconv.ParseFloat's
// (the oracle compileToken itself uses for a literal with the same text).
var textPool = makeTextPool()

func makeTextPool() []string {
	r := NewRng(0xC19)
	var ts []string
	plain := func(v float64) string {
		t := strconv.FormatFloat(v, 'g', -1, 64)
		if strings.ContainsAny(t, "eE") {
			t = strconv.FormatFloat(v, 'f', -1, 64)
		}
		return t
	}
	for i := 0; i < 400; i++ {
		v := float64(r.U64()>>11) / (1 << 53) * math.Pow(10, float64(r.Range(-3, 7)))
		if r.Bool() {
			v = -v
		}
		ts = append(ts, plain(v))
	}
	for k := -3; k <= 8; k++ {
		p := math.Pow(10, float64(k))
		for _, v := range []float64{math.Nextafter(p, 0), math.Nextafter(p, math.Inf(1)), -math.Nextafter(p, 0), math.Nextafter(math.Nextafter(p, 0), 0)} {
			ts = append(ts, plain(v))
		}
	}
	ts = append(ts,
		"0.1000000000000000055", "1.0000000000000002220", "000123.4567890123456", "0.000001234567890123", "123456789012345678.9",
		"1234567890.123456789", "-0.3000000000000000444", "0.30000000000000004", "9007199254740993", "9007199254740992.5", "1.000000000000000000",
		"0.9222122589217269", "975.2416188605783", "361.80548048031693", "-1435046.9221322283", "0.40380328579570035",
		"4.35", "0.1", "100.10", "2.675", "1.005", "8.41", "0.07", "-17.50", "0000.5000", "99999999999999.99", "0.0000000000000001234",
		"17.0", "5.", ".25", "-.75", "1234567.8901234567", "999999999999999.9", "0.999999999999999944", "179769313486231570000000000000.5")
	for _, t := range ts {
		if _, err := strconv.ParseFloat(t, 64); err != nil {
			panic("text pool: " + t)
		}
	}
	return ts
}

func textValue(t string) float64 {
	v, _ := strconv.ParseFloat(t, 64)
	return v
}

// a literal of the formula whose text means the same to ParseFloat as to compileToken (not 017, 0x10, 0b1)
func plainLiteral(t string) bool {
	v, ok := literalValue(t)
	if !ok {
		return false
	}
	w, err := strconv.ParseFloat(t, 64)
	return err == nil && sameBits(v, w)
}

func never(string) bool { return false }

func bindings() []binding {
	nan := func(string) float64 { return math.NaN() }
	inf := func(s string) float64 { return math.Inf(1 - 2*(hashStr(s)%2)) }
	bs := []binding{
		{"empty", profile(0), func(string) bool { return true }, nil}, // the all-empty, probe-like context
		{"p1", profile(1), never, nil}, {"p2", profile(2), never, nil}, {"p3", profile(3), never, nil},
		{"p4", profile(4), never, nil}, {"p5", profile(5), never, nil}, {"p6", profile(6), never, nil}, {"p7", profile(7), never, nil},
		{"nan", nan, never, nil}, {"inf", inf, never, nil},
		{"missing-some", profile(3), func(s string) bool { return hashStr(s)%2 == 0 }, nil},
		{"missing-other", profile(4), func(s string) bool { return hashStr(s)%2 == 1 }, nil},
	}
	return bs
}

var staticBindings = bindings()

const nTextBindings = 4
const nBindings = 12 + nTextBindings

// the bindings of one formula: the static ones plus decimal texts chosen from the formula text and
// the variable name; "text-own" binds every variable to the text of one of the formula's own literals
func bindingsFor(f string, ps []piece) []binding {
	bs := append([]binding(nil), staticBindings...)
	h := hashStr(f)
	fromPool := func(j int) func(string) string {
		return func(s string) string { return textPool[(h*31+hashStr(s)*7+j*13)%len(textPool)] }
	}
	var own []string
	for _, p := range ps {
		if p.K == pNum && plainLiteral(p.T) {
			own = append(own, p.T)
		}
	}
	ownText := fromPool(3)
	if len(own) > 0 {
		ownText = func(s string) string { return own[(h+hashStr(s))%len(own)] }
	}
	for j, tf := range []func(string) string{fromPool(0), fromPool(1), fromPool(2), ownText} {
		tf := tf
		label := fmt.Sprintf("text-%d", j)
		if j == 3 {
			label = "text-own-literal"
		}
		bs = append(bs, binding{label, func(s string) float64 { return textValue(tf(s)) }, never, tf})
	}
	return bs
}

func (b binding) math() *bindCtx {
	return &bindCtx{def: func(s string) float64 {
		if b.missing(s) {
			return 0
		}
		return b.val(s)
	}}
}

func (b binding) render(s string) string {
	if b.text != nil {
		return b.text(s)
	}
	return strconv.FormatFloat(b.val(s), 'g', -1, 64)
}

func (b binding) kb(names map[string]bool, idx map[int]bool) (*kbCtx, bool) {
	c := &kbCtx{names: map[string]string{}, idx: map[int]string{}}
	bad := false
	for n := range names {
		if b.missing(n) {
			bad = true
			continue
		}
		c.names[n] = b.render(n)
	}
	for i := range idx {
		k := "#" + strconv.Itoa(i)
		if b.missing(k) {
			bad = true
			continue
		}
		c.idx[i] = b.render(k)
	}
	return c, bad
}

// the order in which the bindings are presented: optionally the empty context first, every binding,
// then repeats (same binding twice in a row), a reversed pass and the empty context in the middle
func sequenceOrder(f string) []int {
	h := hashStr(f)
	n := nBindings
	var order []int
	if h%2 == 0 {
		order = append(order, 0)
	}
	for i := 0; i < n; i++ {
		order = append(order, 1+(i+h)%(n-1))
	}
	order = append(order, 2, 2, 0, 1+h%(n-1), 1+h%(n-1))
	for i := n - 1; i >= 1; i -= 2 {
		order = append(order, i)
	}
	order = append(order, 0, 3, 1)
	return order
}

func kbTemplate(f string) (string, bool) {
	if strings.ContainsAny(f, "{}\"\\\t") {
		return "", false
	}
	// kfMath concatenates its arguments; blanks inside [..] would be lost, so the formula is passed quoted
	return "{! \"" + f + "\"}", true
}

const concEvals = 800

func sharedObjectRuns(f string, ps []piece, ex stdmath.Expr, t *tree, out *c19Out, tags []string) []string {
	allBindings := bindingsFor(f, ps)
	fail := func(format string, a ...any) {
		if out.ValsOK {
			out.ValsOK, out.ValsNote = false, fmt.Sprintf(format, a...)
		}
	}
	names, idx := map[string]bool{}, map[int]bool{}
	t.vars(names, idx)
	var kb *expressions.CompiledKeyBuilder
	if tpl, ok := kbTemplate(f); ok {
		k, errs := stdlib.NewStdKeyBuilder().Compile(tpl)
		if errs != nil || k == nil {
			fail("stdmath.Compile accepts the formula but the expression %s does not compile: %v", tpl, errs)
		} else {
			kb, out.Template = k, tpl
		}
	}
	// expected values, each from its binding alone
	type want struct {
		mctx *bindCtx
		v    float64
		kctx *kbCtx
		s    string
	}
	wants := make([]want, len(allBindings))
	for i, b := range allBindings {
		w := want{mctx: b.math()}
		st := &refState{}
		w.v = st.eval(t, w.mctx)
		if st.unknown {
			fail("reference evaluator: unknown operator in the dumped tree")
			return tags
		}
		var bad bool
		w.kctx, bad = b.kb(names, idx)
		if bad {
			w.s = stdlib.ErrorNum
		} else {
			st2 := &refState{}
			w.s = strconv.FormatFloat(st2.eval(t, b.math()), 'f', -1, 64)
		}
		wants[i] = w
	}
	// (a) sequence
	order := sequenceOrder(f)
	shared := &bindCtx{} // ONE context object whose content changes from step to step (rare pools its contexts)
	for step, bi := range order {
		w := wants[bi]
		shared.def = w.mctx.def
		if v, p := evalImpl(ex, shared); p || !sameBits(v, w.v) {
			fail("sequence step %d (binding %s, after %d earlier evaluations of the same compiled formula): Eval=%v panic=%v, value for this binding alone=%v",
				step, allBindings[bi].label, step, v, p, w.v)
			break
		}
		if kb != nil {
			s, p := buildKey(kb, w.kctx)
			if p || s != w.s {
				fail("sequence step %d (binding %s: names %v, matches %v) through %s: BuildKey=%q panic=%v, value for this binding alone=%q",
					step, allBindings[bi].label, w.kctx.names, w.kctx.idx, out.Template, s, p, w.s)
				break
			}
		}
	}
	out.SeqSteps = len(order)
	tags = append(tags, "sequence")
	// (b) concurrent: only formulas that compute something from at least one variable
	if len(names)+len(idx) == 0 || !t.hasOp() {
		return tags
	}
	if len(tags) > 0 && strings.HasPrefix(tags[0], "adjacency") && hashStr(f)%4 != 0 {
		return tags // quick-tier budget: one in four of the literal-adjacency formulas
	}
	if len(tags) > 0 && strings.HasPrefix(tags[0], "exhaustive") && hashStr(f)%2 == 1 {
		return tags // quick-tier budget: every second formula of the exhaustive scope
	}
	g := 4 + hashStr(f)%5
	run := func(what string, n int, one func(w want) (bool, string)) {
		var wg sync.WaitGroup
		start := make(chan struct{})
		notes := make([]string, g)
		for k := 0; k < g; k++ {
			wg.Add(1)
			go func(k int) {
				defer wg.Done()
				defer func() {
					if r := recover(); r != nil {
						notes[k] = fmt.Sprintf("panic: %v", r)
					}
				}()
				<-start
				for i := 0; i < n; i++ {
					// mostly its own binding; now and then another one (incl. the empty and the missing ones)
					bi := 1 + (k+hashStr(f))%(len(wants)-1)
					if i%16 == 15 {
						bi = (k + i/16) % len(wants)
					}
					if ok, note := one(wants[bi]); !ok {
						notes[k] = fmt.Sprintf("evaluation %d, binding %s: %s", i, allBindings[bi].label, note)
						return
					}
				}
			}(k)
		}
		close(start)
		wg.Wait()
		for k, nt := range notes {
			if nt != "" {
				fail("concurrent %s, goroutine %d of %d sharing the one compiled formula: %s", what, k, g, nt)
				break
			}
		}
	}
	run("Eval", concEvals, func(w want) (bool, string) {
		v := ex.Eval(w.mctx)
		if !sameBits(v, w.v) {
			return false, fmt.Sprintf("Eval=%v, value for this binding alone=%v", v, w.v)
		}
		return true, ""
	})
	out.Conc = fmt.Sprintf("%d goroutines x %d Eval", g, concEvals)
	if kb != nil {
		run("BuildKey", concEvals/2, func(w want) (bool, string) {
			s := kb.BuildKey(w.kctx)
			if s != w.s {
				return false, fmt.Sprintf("BuildKey=%q, value for this binding alone=%q", s, w.s)
			}
			return true, ""
		})
		out.Conc += fmt.Sprintf(" + %d x %d BuildKey of %s", g, concEvals/2, out.Template)
	}
	return append(tags, "concurrent")
}

// The constant-free form through {! ..}: every literal of F becomes a variable bound to the literal's
// own TEXT (as a matched field would carry it), the other variables to decimal texts; BuildKey must
// render the value F itself has (reference: the dumped constant-free tree with the literals' values).
func constantAsBoundText(f, f2 string, t2 *tree, consts map[string]float64, ctexts map[string]string, out *c19Out) {
	for _, t := range ctexts {
		if !plainLiteral(t) {
			return // 017, 0x10, 0b1: not the same number as a field
		}
	}
	tpl, ok := kbTemplate(f2)
	if !ok {
		return
	}
	kb, errs := stdlib.NewStdKeyBuilder().Compile(tpl)
	if errs != nil || kb == nil {
		out.ValsOK, out.ValsNote = false, fmt.Sprintf("the expression %s does not compile: %v", tpl, errs)
		return
	}
	names, idx := map[string]bool{}, map[int]bool{}
	t2.vars(names, idx)
	h := hashStr(f)
	for j := 0; j < 3; j++ {
		text := func(s string) string {
			if t, isConst := ctexts[s]; isConst {
				return t
			}
			return textPool[(h*17+hashStr(s)*5+j*11)%len(textPool)]
		}
		kc := &kbCtx{names: map[string]string{}, idx: map[int]string{}}
		mc := &bindCtx{names: map[string]float64{}, idx: map[int]float64{}, def: func(string) float64 { return 0 }}
		for n := range names {
			kc.names[n] = text(n)
			mc.names[n] = textValue(text(n))
			if v, isConst := consts[n]; isConst {
				mc.names[n] = v
			}
		}
		for i := range idx {
			k := "#" + strconv.Itoa(i)
			kc.idx[i] = text(k)
			mc.idx[i] = textValue(text(k))
		}
		st := &refState{}
		want := strconv.FormatFloat(st.eval(t2, mc), 'f', -1, 64)
		got, p := buildKey(kb, kc)
		if p || got != want {
			out.ValsOK = false
			out.ValsNote = fmt.Sprintf("constants as bound texts: %s with names %v, matches %v gives %q (panic=%v); the formula with the same texts as constants has the value %q",
				tpl, kc.names, kc.idx, got, p, want)
			return
		}
	}
}

func buildKey(kb *expressions.CompiledKeyBuilder, c expressions.KeyBuilderContext) (s string, panicked bool) {
	defer func() {
		if r := recover(); r != nil {
			s, panicked = fmt.Sprint(r), true
		}
	}()
	return kb.BuildKey(c), false
}

// ---------------------------------------------------------------- one case
// Every case runs under a time limit: a panic or a hang of one evaluation is that case's outcome.
const caseTimeout = 4 * time.Second

var hangs int
var hangOps map[string]bool // operators common to every formula that hung so far

func opsOf(ps []piece) map[string]bool {
	m := map[string]bool{}
	for _, p := range ps {
		if p.K == pOp || p.K == pFn || p.K == pMinus || p.K == pBang {
			m[p.T] = true
		}
	}
	return m
}

// after a few hangs, formulas that contain an operator common to all hung formulas are not evaluated
// any more (each hung evaluation keeps a goroutine spinning and costs the full time limit)
func skipAfterHangs(ps []piece) bool {
	if hangs < 4 {
		return false
	}
	if hangs >= 40 {
		return true
	}
	for o := range opsOf(ps) {
		if hangOps[o] {
			return true
		}
	}
	return false
}

func c19Case(ps []piece, tags []string) Case {
	var res Case
	outcome, pv := Guarded(caseTimeout, func() { res = c19CaseInner(ps, append([]string(nil), tags...)) })
	if outcome == "ok" {
		return res
	}
	f := join(ps)
	out := c19Out{Formula: f, Outcome: outcome, ValsOK: false}
	if outcome == "panic" {
		out.Err = fmt.Sprint(pv)
	} else {
		out.Err = fmt.Sprintf("an evaluation of this formula did not return within %v", caseTimeout)
		hangs++
		mine := opsOf(ps)
		if hangOps == nil {
			hangOps = mine
		} else {
			for o := range hangOps {
				if !mine[o] {
					delete(hangOps, o)
				}
			}
		}
	}
	tags = append(tags, "impl:"+outcome)
	return Case{Coq: fmt.Sprintf("cPanic %s", HS(f)), Desc: c19Desc{Input: c19In{Pieces: ps}, Impl: out}, Key: f, Nontrivial: true, Tags: tags}
}

func hasIntOp(f string) bool {
	return strings.Contains(f, "%") || strings.Contains(f, "<<") || strings.Contains(f, ">>")
}

func c19CaseInner(ps []piece, tags []string) Case {
	f := join(ps)
	out := c19Out{Formula: f, ValsOK: true}
	ex, outcome, errText := compileImpl(f)
	out.Outcome, out.Err = outcome, errText
	var coq string
	var t *tree
	if outcome == "ok" {
		out.Tree = stdmath.VerifDump(ex)
		var err error
		t, err = (&sx{s: out.Tree}).parse()
		if err != nil {
			panic(err)
		}
	}
	unaryAt, dangling := classify(ps)
	if dangling {
		tags = append(tags, "kf:C19-unary-no-operand")
	}
	// values: F against its constant-free form F' and the reference evaluation of F's tree
	intOp := hasIntOp(f)
	fault := false
	paired := false
	if ps2, consts, ctexts, ok := constantFree(ps, unaryAt); ok {
		f2 := join(ps2)
		ex2, outcome2, _ := compileImpl(f2)
		if f2 != f {
			out.Paired = f2
		}
		if outcome2 != outcome && !(outcome == "panic" && outcome2 == "ok") {
			// F panicking at compile time while F' compiles is the compile-time face of the integer-operator defect
			out.ValsOK, out.ValsNote = false, fmt.Sprintf("F: %s, constant-free form: %s", outcome, outcome2)
		}
		if outcome2 == "ok" {
			paired = true
			t2, err := (&sx{s: stdmath.VerifDump(ex2)}).parse()
			if err != nil {
				panic(err)
			}
			for k := 0; k < nProfiles; k++ {
				c := &bindCtx{names: consts, def: profile(k)}
				st := &refState{}
				ref := st.eval(t2, c)
				fault = fault || st.fault
				if st.unknown {
					out.ValsOK, out.ValsNote = false, "reference evaluator: unknown operator in the dumped tree"
					break
				}
				v2, p2 := evalImpl(ex2, c)
				if p2 || !sameBits(v2, ref) {
					out.ValsOK = false
					out.ValsNote = fmt.Sprintf("profile %d: Eval(constant-free)=%v panic=%v, reference=%v", k, v2, p2, ref)
					break
				}
				if outcome == "ok" {
					v1, p1 := evalImpl(ex, c)
					if p1 || !sameBits(v1, ref) {
						out.ValsOK = false
						out.ValsNote = fmt.Sprintf("profile %d: Eval=%v panic=%v, reference=%v", k, v1, p1, ref)
						break
					}
				}
			}
			if outcome == "panic" && !fault {
				out.ValsOK, out.ValsNote = false, "Compile panics although no integer operator faults"
			}
			if out.ValsOK && outcome == "ok" && len(ctexts) > 0 {
				constantAsBoundText(f, f2, t2, consts, ctexts, &out)
			}
		}
	}
	if intOp && (fault || !paired) {
		tags = append(tags, "kf:C19-int-ops-panic")
	}
	// ONE compiled object, many evaluations: sequences of bindings, then several goroutines at once
	if outcome == "ok" {
		tags = sharedObjectRuns(f, ps, ex, t, &out, tags)
	}
	if paired {
		tags = append(tags, "values-checked")
	}
	switch outcome {
	case "ok":
		coq = fmt.Sprintf("cOk %s %s %s", HS(f), t.coq(), B(out.ValsOK))
	case "error":
		coq = fmt.Sprintf("cErr %s %s", HS(f), B(out.ValsOK))
	default:
		coq = fmt.Sprintf("cPanic %s", HS(f))
	}
	tags = append(tags, "impl:"+outcome)
	return Case{Coq: coq, Desc: c19Desc{Input: c19In{Pieces: ps}, Impl: out}, Key: f, Nontrivial: nontrivial(ps, outcome), Tags: tags}
}

// non-trivial: the formula exercises precedence (two binary operators), grouping, implied
// multiplication, a unary operator, a non-decimal literal, or is rejected
func nontrivial(ps []piece, outcome string) bool {
	if outcome != "ok" {
		return true
	}
	nb := 0
	for _, p := range ps {
		switch p.K {
		case pOp, pMinus:
			nb++
		case pL, pFn, pBang:
			return true
		case pNum:
			if strings.ContainsAny(p.T, "xXbBoO._eEpPnN") || (len(p.T) > 1 && p.T[0] == '0') {
				return true
			}
		}
	}
	return nb >= 2
}

// ---------------------------------------------------------------- generators
var binOps = []string{"+", "*", "/", "^", "%", "<<", ">>", "&", "|", "<", "<=", ">", ">=", "==", "&&", "||"}
var fnNames = []string{"abs", "sin", "asin", "cos", "acos", "tan", "atan", "sqrt", "floor", "ceil", "round", "exp", "exp2", "log", "log10", "log2"}
var goodNums = []string{"0", "1", "2", "3", "7", "10", "0.5", "2.5", "1.5e3", "1E2", "0x10", "0X1f", "0b101", "0B11", "0o17", "017", "09",
	"1_000", "0x_ff", ".5", "5.", "1e300", "9007199254740993", "9223372036854775807", "9223372036854775808", "99999999999999999999",
	"0x1p4", "0x1.8p1", "inf", "Infinity", "nan", "NaN", "0.1", "123.456", "00", "0.000001", "1_0.2_5", "1e1_0", "0e999999"}
var badNums = []string{"0x", "0b2", "0b", "08_", "1__0", "1_", "0_x1", "1.5.2", "1e", "1e400", "0x1p", "0x1.8", "2x", "1_e3", "._5", ".", "0x1p1025",
	"infin", "nanx", "0o8", "1e99999999999999999999", "0xg", "1..2", "5_.5"}
var goodVars = []string{"x", "y", "z", "abc", "X1", "e1", "[x]", "[0]", "[1]", "[12]", "[a b]", "[]", "[99999999999999999999]", "[007]", "[+3]", "infx", "abs", "log2"}
var badVars = []string{"_a", "a_b", "x.y", "[x", "x]", "é", "a\tb", "$", "x=1", "=", "#1", "[a][b]", "a'"}

func op(s string) piece {
	if s == "-" {
		return piece{pMinus, "-"}
	}
	return piece{pOp, s}
}

func exhaustive(L int) [][]piece {
	alpha := []piece{{pNum, "2"}, {pVar, "x"}, {pVar, "[0]"}, op("+"), op("*"), op("^"), op("-"), op("<="), op("&&"), {pL, "("}, {pR, ")"}, {pFn, "abs"}}
	var res [][]piece
	var rec func(cur []piece, l int)
	rec = func(cur []piece, l int) {
		res = append(res, append([]piece(nil), cur...))
		if l == L {
			return
		}
		for _, a := range alpha {
			rec(append(cur, a), l+1)
		}
	}
	rec(nil, 0)
	return res
}

func randAtom(r *Rng) piece {
	switch r.Intn(10) {
	case 0, 1, 2:
		return piece{pNum, Pick(r, goodNums)}
	case 3:
		return piece{pNum, strconv.Itoa(r.Intn(1000))}
	case 4:
		return piece{pNum, strconv.FormatFloat(float64(r.Intn(100000))/float64([]int{1, 10, 100, 8}[r.Intn(4)]), 'g', -1, 64)}
	default:
		return piece{pVar, Pick(r, goodVars[:12])}
	}
}

func randSeq(r *Rng, maxLen int, malformed bool) []piece {
	n := r.Range(1, maxLen)
	var ps []piece
	depth := 0
	for i := 0; i < n; i++ {
		k := r.Intn(100)
		switch {
		case k < 30:
			ps = append(ps, randAtom(r))
		case k < 55:
			ps = append(ps, op(Pick(r, binOps)))
		case k < 63:
			ps = append(ps, piece{pMinus, "-"})
		case k < 67:
			ps = append(ps, piece{pBang, "!"})
		case k < 75:
			ps = append(ps, piece{pL, "("})
			depth++
		case k < 83:
			if depth > 0 || malformed {
				ps = append(ps, piece{pR, ")"})
				depth--
			}
		case k < 88:
			ps = append(ps, piece{pFn, Pick(r, fnNames)}, piece{pL, "("})
			depth++
		case k < 93:
			ps = append(ps, piece{pSp, " "})
		case k < 96 && malformed:
			ps = append(ps, piece{pRaw, Pick(r, badVars)})
		case k < 98 && malformed:
			ps = append(ps, piece{pNum, Pick(r, badNums)})
		default:
			ps = append(ps, randAtom(r))
		}
	}
	if !malformed || r.Chance(2, 3) {
		for ; depth > 0; depth-- {
			ps = append(ps, piece{pR, ")"})
		}
	}
	return ps
}

// random trees printed with minimal or redundant parentheses
type gtree struct {
	kind string // atom un fn bin
	p    piece
	op   string
	kids []*gtree
}

var levels = [][]string{{"^"}, {">>", "<<"}, {"*", "/", "%"}, {"&", "|"}, {"+", "-"}, {"==", "<=", ">=", ">", "<"}, {"&&", "||"}}

func levelOf(o string) int {
	for i, l := range levels {
		for _, x := range l {
			if x == o {
				return i
			}
		}
	}
	return -1
}

func randTree(r *Rng, depth int) *gtree {
	if depth == 0 || r.Chance(1, 4) {
		return &gtree{kind: "atom", p: randAtom(r)}
	}
	switch r.Intn(10) {
	case 0:
		return &gtree{kind: "un", op: Pick(r, []string{"-", "!"}), kids: []*gtree{randTree(r, depth-1)}}
	case 1:
		return &gtree{kind: "fn", op: Pick(r, fnNames), kids: []*gtree{randTree(r, depth-1)}}
	default:
		o := Pick(r, append([]string{"-", "+", "*", "*"}, binOps...))
		return &gtree{kind: "bin", op: o, kids: []*gtree{randTree(r, depth-1), randTree(r, depth-1)}}
	}
}

// print so that the order of operations rebuilds exactly this tree (minimal), optionally with
// extra parentheses and blanks; implied multiplication where the right operand is parenthesised
func (t *gtree) print(r *Rng, redundant bool, out *[]piece) {
	sp := func() {
		if redundant && r.Chance(1, 4) {
			*out = append(*out, piece{pSp, " "})
		}
	}
	wrap := func(c *gtree, need bool) bool {
		need = need || (redundant && r.Chance(1, 4))
		if need {
			*out = append(*out, piece{pL, "("})
		}
		c.print(r, redundant, out)
		if need {
			*out = append(*out, piece{pR, ")"})
		}
		return need
	}
	switch t.kind {
	case "atom":
		*out = append(*out, t.p)
	case "un":
		k := pMinus
		if t.op == "!" {
			k = pBang
		}
		*out = append(*out, piece{k, t.op})
		c := t.kids[0]
		// a unary operator applies to the next primary; "--x" is not unary-of-unary, so parenthesise
		wrap(c, c.kind == "bin" || c.kind == "un")
	case "fn":
		*out = append(*out, piece{pFn, t.op}, piece{pL, "("})
		t.kids[0].print(r, redundant, out)
		*out = append(*out, piece{pR, ")"})
	case "bin":
		l, rr := t.kids[0], t.kids[1]
		wrap(l, l.kind == "bin" && levelOf(l.op) > levelOf(t.op))
		sp()
		needR := rr.kind == "bin" && levelOf(rr.op) >= levelOf(t.op)
		if t.op == "*" && (needR || redundant) && r.Chance(1, 2) {
			// implied multiplication: "a(b)"
			*out = append(*out, piece{pL, "("})
			rr.print(r, redundant, out)
			*out = append(*out, piece{pR, ")"})
			return
		}
		*out = append(*out, op(t.op))
		sp()
		wrap(rr, needR)
	}
}

func litCases() [][]piece {
	var res [][]piece
	for _, n := range goodNums {
		res = append(res, []piece{{pNum, n}})
		res = append(res, []piece{{pNum, n}, op("+"), {pVar, "x"}})
	}
	for _, n := range badNums {
		res = append(res, []piece{{pNum, n}})
		res = append(res, []piece{{pVar, "x"}, op("*"), {pNum, n}})
	}
	for _, v := range goodVars {
		res = append(res, []piece{{pVar, v}})
		res = append(res, []piece{{pVar, v}, op("-"), {pNum, "1"}})
	}
	for _, v := range badVars {
		res = append(res, []piece{{pRaw, v}})
	}
	// fixed formulas from docs/usage/math.md and the boundary classes of the theorems
	for _, f := range [][]piece{
		{{pNum, "2"}, op("+"), {pNum, "2"}},
		{{pNum, "2"}, {pSp, " "}, op("*"), {pSp, " "}, {pVar, "x"}},
		{{pFn, "abs"}, {pL, "("}, {pMinus, "-"}, {pNum, "4"}, {pR, ")"}},
		{{pNum, "2"}, {pL, "("}, {pNum, "1"}, op("+"), {pNum, "1"}, {pR, ")"}},
		{{pL, "("}, {pVar, "x"}, {pR, ")"}, {pL, "("}, {pVar, "y"}, {pR, ")"}},
		{{pVar, "x"}, op("^"), {pVar, "y"}, op("^"), {pVar, "z"}},
		{{pVar, "x"}, op("-"), {pVar, "y"}, op("-"), {pVar, "z"}},
		{{pVar, "x"}, op("%"), {pNum, "0"}},
		{{pNum, "5"}, op("%"), {pNum, "0"}},
		{{pNum, "1"}, op("<<"), {pVar, "[0]"}},
		{{pNum, "1"}, op("<<"), {pMinus, "-"}, {pNum, "1"}},
		{{pNum, "1"}, op(">>"), {pMinus, "-"}, {pVar, "x"}},
		{{pMinus, "-"}},
		{{pNum, "2"}, op("+"), {pMinus, "-"}},
		{{pBang, "!"}},
		{{pL, "("}, {pMinus, "-"}, {pR, ")"}},
		{{pL, "("}, {pR, ")"}},
		{},
		{{pSp, " "}},
		{{pNum, "2"}, op("+")},
		{op("+"), {pNum, "2"}},
		{{pL, "("}, {pNum, "2"}},
		{{pNum, "2"}, {pR, ")"}},
		{{pNum, "1"}, {pSp, " "}, {pNum, "2"}},
		{{pVar, "x"}, {pBang, "!"}},
		{{pVar, "x"}, {pRaw, "="}, {pVar, "y"}},
		{{pVar, "x"}, op("=="), {pVar, "y"}},
		{{pVar, "x"}, {pRaw, "!="}, {pVar, "y"}},
		{{pMinus, "-"}, {pMinus, "-"}, {pVar, "x"}},
		{{pMinus, "-"}, {pBang, "!"}, {pVar, "x"}},
		{{pBang, "!"}, {pL, "("}, {pMinus, "-"}, {pVar, "x"}, {pR, ")"}},
		{{pMinus, "-"}, {pNum, "2"}, op("^"), {pNum, "2"}},
		{{pNum, "2"}, op("^"), {pMinus, "-"}, {pNum, "2"}},
		{{pFn, "abs"}, {pSp, " "}, {pL, "("}, {pVar, "x"}, {pR, ")"}},
		{{pFn, "abs"}, {pVar, "x"}},
		{{pL, "("}, {pVar, "x"}, {pR, ")"}, {pFn, "abs"}, {pL, "("}, {pVar, "y"}, {pR, ")"}},
		{{pL, "("}, {pVar, "x"}, {pR, ")"}, {pNum, "3"}},
		{{pVar, "[a"}, op("-"), {pVar, "b]"}},
		{{pL, "("}, {pL, "("}, {pL, "("}, {pVar, "x"}, {pR, ")"}, {pR, ")"}, {pR, ")"}},
		{{pVar, "x"}, op("<"), op("<"), {pVar, "y"}},
		{{pVar, "x"}, op("<"), op("<="), {pVar, "y"}},
		{{pVar, "x"}, op("&"), op("&"), op("&"), {pVar, "y"}},
	} {
		res = append(res, f)
	}
	return res
}

// Every literal form (decimal, decimal ending in e/E, exponent forms, leading/trailing dot, hex with
// every possible last digit incl. e/E/b/B and x-/p-like shapes, binary, octal) directly followed by each
// binary operator (with and without blanks), preceded by each, and next to parentheses. Which
// of these are accepted, and their trees and values, is decided by the model's tokenizer.
func adjacencyLiterals() []string {
	ls := []string{"7", "12", "1.5", ".5", "5.", "1e", "2.5e", "1E", "2.5E", "0e", "1e3", "2.5E2", "1e0", ".5e", "5.e", "1.e2", "0.e",
		"0b1", "0b10", "0B11", "0b1e", "0b", "0b1E", "0o7", "0o1e", "017", "08", "01e", "0x", "0X", "0x1p", "0x1p2", "0x1P2", "0x1ep1", "0x.ep1", "0x1x", "0xx", "0xep",
		"1x", "1b", "1E5", "e", "E", "e1", "x2e", "1e1e", "1ee", "0xe1e", "0x1e1E"}
	for _, stem := range []string{"0x", "0x1", "0xf", "0X1", "0xdeadbe"} {
		for _, d := range "0123456789abcdefABCDEF" {
			ls = append(ls, stem+string(d))
		}
	}
	return ls
}

func adjacency() [][]piece {
	var res [][]piece
	ops := append([]string{"-"}, binOps...)
	rights := []piece{{pNum, "2"}, {pVar, "x"}, {pVar, "[0]"}, {pNum, "3"}}
	sp := piece{pSp, " "}
	lit := func(l string) piece {
		if _, ok := literalValue(l); ok {
			return piece{pNum, l}
		}
		if l[0] >= '0' && l[0] <= '9' || l[0] == '.' {
			return piece{pNum, l} // malformed number
		}
		return piece{pVar, l}
	}
	fewOps := []string{"-", "+", "*", "<=", "&&", "^"}
	nBase := len(adjacencyLiterals()) - 5*22 // the hex last-digit sweep meets the six operators above, all other forms all 17
	for li, l := range adjacencyLiterals() {
		L := lit(l)
		lops := ops
		if li >= nBase {
			lops = fewOps
		}
		for oi, o := range lops {
			r := rights[(li+oi)%len(rights)]
			res = append(res, []piece{L, op(o), r})         // 0x1e+2
			res = append(res, []piece{L, sp, op(o), sp, r}) // 0x1e + 2
			if (li+oi)%2 == 0 {
				res = append(res, []piece{r, op(o), L}) // 2+0x1e
			} else {
				res = append(res, []piece{r, sp, op(o), sp, L}) // 2 + 0x1e
			}
		}
		x := piece{pVar, "x"}
		res = append(res,
			[]piece{L, {pL, "("}, x, {pR, ")"}},                                              // 0x1e(x)
			[]piece{{pL, "("}, L, {pR, ")"}},                                                 // (0x1e)
			[]piece{{pL, "("}, x, {pR, ")"}, L},                                              // (x)0x1e
			[]piece{{pL, "("}, L, {pR, ")"}, op("-"), x},                                     // (0x1e)-x
			[]piece{{pFn, "abs"}, {pL, "("}, L, op("-"), x, op("^"), {pNum, "2"}, {pR, ")"}}, // abs(0x1e-x^2)
			[]piece{x, op("*"), L, sp, op("+"), sp, {pVar, "y"}},                             // x*0x1E + y
			[]piece{{pMinus, "-"}, L, op("+"), L},                                            // -0x1e+0x1e
			[]piece{L, sp, L},                                                                // 0x1e 0x1e
		)
	}
	return res
}

func gen(r *Rng, n int, tier string) []Case {
	var cases []Case
	add := func(ps []piece, tag string) {
		if skipAfterHangs(ps) {
			return
		}
		c := c19Case(ps, []string{tag})
		cases = append(cases, c)
		// the constant-free form is a formula of its own (its tree contains no folded constant)
		d := c.Desc.(c19Desc)
		if d.Impl.Paired != "" && tag != "adjacency" {
			u, _ := classify(ps)
			if ps2, _, _, ok := constantFree(ps, u); ok {
				cases = append(cases, c19Case(ps2, []string{tag + "/constant-free"}))
			}
		}
	}
	for _, ps := range litCases() {
		add(ps, "fixed")
	}
	L := 4
	if tier == "thorough" && n >= 20000 { // the driver's escalation searches (smaller n) keep the quick scope
		L = 5
	}
	for _, ps := range exhaustive(L) {
		add(ps, "exhaustive")
	}
	// every ordered pair of binary operators: x o1 y o2 z (all precedence and associativity decisions)
	for _, o1 := range append([]string{"-"}, binOps...) {
		for _, o2 := range append([]string{"-"}, binOps...) {
			add([]piece{{pVar, "x"}, op(o1), {pVar, "y"}, op(o2), {pVar, "[0]"}}, "operator-pairs")
		}
	}
	// literal adjacency: every literal form directly next to every operator and parenthesis
	for _, ps := range adjacency() {
		add(ps, "adjacency")
	}
	// a decimal text as a constant next to variables that the text bindings bind to the same text
	for i := 0; i < 60+n/50; i++ {
		txt := strings.TrimPrefix(Pick(r, textPool), "-")
		lit := piece{pNum, txt}
		v := Pick(r, []piece{{pVar, "[0]"}, {pVar, "x"}, {pVar, "[1]"}, {pVar, "[val]"}})
		switch i % 4 {
		case 0:
			add([]piece{v, op("=="), lit}, "text-literal")
		case 1:
			add([]piece{v, {pSp, " "}, op("-"), {pSp, " "}, {pL, "("}, lit, {pR, ")"}}, "text-literal")
		case 2:
			add([]piece{{pL, "("}, v, op("+"), {pNum, "1"}, {pR, ")"}, op("*"), {pNum, "2"}, op("=="), {pL, "("}, lit, op("+"), {pNum, "1"}, {pR, ")"}, op("*"), {pNum, "2"}}, "text-literal")
		default:
			add([]piece{lit, op("/"), v, op("<="), {pNum, "1"}, op("&&"), v, op(">="), lit}, "text-literal")
		}
	}
	for i := 0; i < n; i++ {
		switch i % 4 {
		case 0:
			add(randSeq(r, 25, false), "random-seq")
		case 1:
			add(randSeq(r, 25, true), "random-malformed")
		case 2:
			var ps []piece
			randTree(r, r.Range(1, 5)).print(r, false, &ps)
			add(ps, "tree-minimal")
		default:
			var ps []piece
			randTree(r, r.Range(1, 5)).print(r, true, &ps)
			add(ps, "tree-redundant")
		}
	}
	return cases
}

func replay(desc json.RawMessage) (Case, error) {
	var d c19Desc
	if err := json.Unmarshal(desc, &d); err != nil {
		return Case{}, err
	}
	return c19Case(d.Input.Pieces, []string{"replay"}), nil
}

func main() {
	Main(&Prop{
		Name:   "C19",
		Header: "From Coq Require Import List NArith ZArith Bool String.\nFrom RareV Require Import Corr.C19Case.\nImport ListNotations.\nLocal Open Scope string_scope.\nLocal Open Scope N_scope.\n",
		Rule: "formulas are lists of lexical pieces (literal, variable, operator, -, !, function name, parentheses, blank, garbage): " +
			"fixed boundary formulas and every literal format; ALL sequences of length <= 4 (quick) / 5 (thorough) over the 12-piece alphabet {2 x [0] + * ^ - <= && ( ) abs}; " +
			"random sequences up to 25 pieces over all 17 operators, all unary operators and all literal formats (well-formed and malformed streams); " +
			"random trees (depth <= 5) printed with minimal and with redundant parentheses/blanks and implied multiplication; each formula is also run with its constants replaced by variables; " +
			"values at 6 bindings (all 0, negatives, small integers, and three mixes incl. 0.5, -2.5, 1e300, 1e-300, -0, +Inf, +-4e18). " +
			"Every formula that compiles is also compiled ONCE (stdmath.Compile and the expression {! \"formula\"} through stdlib) and that one object is evaluated (a) over a SEQUENCE of about 27 bindings " +
			"(optionally the all-empty probe-like context first, 7 value mixes, all NaN, +-Inf, two bindings with missing variables, immediate repeats, a reversed pass, the empty context again; the bare context is one object whose content changes) " +
			"and (b) CONCURRENTLY from 4-8 goroutines behind a start barrier, 800 Eval + 400 BuildKey each over different bindings (formulas with a variable and an operator; every second one of the exhaustive scope); " +
			"each single result must equal the reference value of its own binding alone (tree of the fresh compile; <BAD-TYPE> when a variable is missing). " +
			"Bindings through {! ..} include DECIMAL TEXTS as a matched field carries them: shortest round-trip texts of random float64 values (15-17 significant digits), neighbours of powers of ten, 17-19 digit strings with leading/trailing zeros " +
			"(4 such bindings per formula, one of them binding every variable to the text of one of the formula's own literals; value of a text = strconv.ParseFloat); the constant-free form is also run through {! ..} with every literal bound as its own text " +
			"and must render the value of the formula with the texts as constants; plus formulas `v == TEXT`, `v - (TEXT)`, `(v+1)*2 == (TEXT+1)*2` over those texts. " +
			"Operator pairs: x o1 y o2 [0] for all 17 x 17 ordered pairs of binary operators. " +
			"Literal adjacency: ~160 literal forms (decimals, decimals ending in e/E, exponent forms, leading/trailing dot, hex with every last digit 0-9a-fA-F over 5 stems, hex-float and x-/p-like shapes, binary, octal, malformed) " +
			"directly followed by each of the 17 binary operators with and without blanks, preceded by each, followed by a group, inside a group, after a group, under a function and a unary minus; the model's tokenizer decides accept/reject, tree and value. " +
			"Each case runs under a 4 s limit: a panic or hang is recorded as that case's outcome; after 4 hangs formulas sharing an operator with all hung ones are skipped. " +
			"Distinct = distinct formula text; non-trivial = rejected, or uses a group/function/unary/non-decimal literal, or at least two binary operators.",
		Gen:    gen,
		Replay: replay,
		Shard:  2000,
	})
}
