package main

// C09: pkg/expressions template syntax. The real KeyBuilder.Compile is run on generated templates
// with probe functions (public KeyBuilder.Func API) and a recording context; output and compile
// errors (kind, offset) are compared with the Coq model (coq/Model/Tmpl.v) and with the boolean
// forms of the property (coq/Model/TmplPrint.v C09_check).

import (
	"encoding/json"
	"errors"
	"fmt"
	"sort"
	"strconv"
	"strings"
	"unicode"

	"rare/pkg/expressions"
	. "verifh/lib"
)

// ---------------------------------------------------------------- implementation under test

type probeCtx struct{}

func (probeCtx) GetMatch(i int) string  { return "⟨" + strconv.Itoa(i) + "⟩" }
func (probeCtx) GetKey(k string) string { return "⟪" + k + "⟫" }

var errProbe = errors.New("probe: wrong argument count")

// probe renders name(arg1|arg2|...); want >= 0: the constructor also returns an error unless len(args) == want
func probe(name string, want int) expressions.KeyBuilderFunction {
	return func(args []expressions.KeyBuilderStage) (expressions.KeyBuilderStage, error) {
		stage := expressions.KeyBuilderStage(func(ctx expressions.KeyBuilderContext) string {
			var sb strings.Builder
			sb.WriteString(name)
			sb.WriteByte('(')
			for i, a := range args {
				if i > 0 {
					sb.WriteByte('|')
				}
				sb.WriteString(a(ctx))
			}
			sb.WriteByte(')')
			return sb.String()
		})
		if want >= 0 && len(args) != want {
			return stage, errProbe
		}
		return stage, nil
	}
}

func newBuilder(opt bool) *expressions.KeyBuilder {
	kb := expressions.NewKeyBuilderEx(opt)
	for _, n := range []string{"f0", "f1", "f2", "f3"} {
		kb.Func(n, probe(n, -1))
	}
	kb.Func("g2", probe("g2", 2))
	return kb
}

type implOut struct {
	Panic    bool     `json:"panic"`
	Out      []int    `json:"output_runes"`
	OutNoOpt []int    `json:"output_noopt_runes"`
	OutText  string   `json:"output_text"`
	Errs     [][2]int `json:"errors_kind_offset"` // kind: 0 unterminated, 1 empty statement, 2 missing function, 3 function error
	Note     string   `json:"note,omitempty"`
	// a contract violation the harness observed around this compile (a builder knows a function that is
	// neither in the base set nor registered on it, HasFunc wrong, the caller's function set modified)
	Violation string `json:"violation,omitempty"`
}

func errKind(e error) int {
	switch {
	case errors.Is(e, expressions.ErrorUnterminated):
		return 0
	case errors.Is(e, expressions.ErrorEmptyStatement):
		return 1
	case errors.Is(e, expressions.ErrorMissingFunction):
		return 2
	}
	return 3
}

func runOne(tmpl string, opt bool) (out string, errs [][2]int) {
	kb := newBuilder(opt)
	ckb, cerr := kb.Compile(tmpl)
	if cerr != nil {
		for _, e := range cerr.Errors {
			errs = append(errs, [2]int{errKind(e.Err), e.Index})
		}
	}
	if ckb == nil {
		panic("Compile returned a nil builder")
	}
	return ckb.BuildKey(probeCtx{}), errs
}

func toInts(s string) []int {
	rs := []rune(s)
	xs := make([]int, len(rs))
	for i, r := range rs {
		xs[i] = int(r)
	}
	return xs
}

func runImpl(tmpl string) (o implOut) {
	defer func() {
		if e := recover(); e != nil {
			o = implOut{Panic: true, Note: fmt.Sprint(e)}
		}
	}()
	out1, errs1 := runOne(tmpl, true)
	out2, errs2 := runOne(tmpl, false)
	o.Out, o.OutNoOpt, o.OutText, o.Errs = toInts(out1), toInts(out2), out1, errs1
	if fmt.Sprint(errs1) != fmt.Sprint(errs2) {
		o.Errs = append(o.Errs, [2]int{99, 0})
		o.Note = "error lists of the optimising and the plain builder differ"
	}
	return
}

func probeFor(name string) expressions.KeyBuilderFunction {
	if name == "g2" {
		return probe("g2", 2)
	}
	return probe(name, -1)
}

var seqBaseNames = []string{"f0", "f1", "f2", "f3", "g2"}
var seqExtraNames = []string{"h0", "h1", "twice", "z9z9"}

func isBaseName(n string) bool {
	for _, b := range seqBaseNames {
		if b == n {
			return true
		}
	}
	return false
}

// runSeq runs the steps on builders that are all made from ONE base function set (KeyBuilder.Funcs(base));
// every builder exists twice (optimising, plain). Each compiled expression is evaluated right after its
// compile and once more after the whole sequence. After every compile: every builder must know exactly the
// base set plus its own registrations (HasFunc), and the caller's base map must be unchanged.
// Returns per step the observable and the own registrations of the step's builder at that time.
func runSeq(steps []seqStep, pre int) ([]implOut, [][]string) {
	base := map[string]expressions.KeyBuilderFunction{}
	for _, n := range seqBaseNames {
		base[n] = probeFor(n)
	}
	builders := map[int]*[2]*expressions.KeyBuilder{}
	own := map[int]map[string]bool{}
	get := func(b int) *[2]*expressions.KeyBuilder {
		if kb, ok := builders[b]; ok {
			return kb
		}
		kb := &[2]*expressions.KeyBuilder{expressions.NewKeyBuilderEx(true), expressions.NewKeyBuilderEx(false)}
		kb[0].Funcs(base)
		kb[1].Funcs(base)
		builders[b] = kb
		own[b] = map[string]bool{}
		return kb
	}
	for b := 0; b < pre; b++ {
		get(b)
	}
	contract := func() string {
		if len(base) != len(seqBaseNames) {
			keys := []string{}
			for k := range base {
				keys = append(keys, k)
			}
			sort.Strings(keys)
			return fmt.Sprintf("the caller's function set was modified: now %v", keys)
		}
		for _, n := range seqBaseNames {
			if base[n] == nil {
				return "the caller's function set lost " + n
			}
		}
		ids := []int{}
		for b := range builders {
			ids = append(ids, b)
		}
		sort.Ints(ids)
		for _, b := range ids {
			for m := 0; m < 2; m++ {
				for _, n := range append(append([]string{}, seqBaseNames...), seqExtraNames...) {
					want := isBaseName(n) || own[b][n]
					if builders[b][m].HasFunc(n) != want {
						return fmt.Sprintf("builder %d (optimise=%v): HasFunc(%q) = %v, but the base set and its own registrations say %v", b, m == 0, n, !want, want)
					}
				}
			}
		}
		return ""
	}
	outs := make([]implOut, len(steps))
	extras := make([][]string, len(steps))
	ckbs := make([][2]*expressions.CompiledKeyBuilder, len(steps))
	first := make([][2]string, len(steps))
	flagged := false
	for k, st := range steps {
		kbs := get(st.Builder)
		if st.Reg != "" {
			kbs[0].Func(st.Reg, probeFor(st.Reg))
			kbs[1].Func(st.Reg, probeFor(st.Reg))
			if !isBaseName(st.Reg) {
				own[st.Builder][st.Reg] = true
			}
		}
		for n := range own[st.Builder] {
			extras[k] = append(extras[k], n)
		}
		sort.Strings(extras[k])
		if st.Kind == "register" {
			continue
		}
		rs := make([]rune, len(st.Template))
		for i, x := range st.Template {
			rs[i] = rune(x)
		}
		tmpl := string(rs)
		func() {
			defer func() {
				if e := recover(); e != nil {
					outs[k] = implOut{Panic: true, Note: fmt.Sprint(e)}
				}
			}()
			var errs [2][][2]int
			for m := 0; m < 2; m++ {
				ckb, cerr := kbs[m].Compile(tmpl)
				if cerr != nil {
					for _, e := range cerr.Errors {
						errs[m] = append(errs[m], [2]int{errKind(e.Err), e.Index})
					}
				}
				if ckb == nil {
					panic("Compile returned a nil builder")
				}
				ckbs[k][m] = ckb
				first[k][m] = ckb.BuildKey(probeCtx{})
			}
			o := implOut{Out: toInts(first[k][0]), OutNoOpt: toInts(first[k][1]), OutText: first[k][0], Errs: errs[0]}
			if fmt.Sprint(errs[0]) != fmt.Sprint(errs[1]) {
				o.Errs = append(o.Errs, [2]int{99, 0})
				o.Note = "error lists of the optimising and the plain builder differ"
			}
			outs[k] = o
		}()
		if !flagged {
			if v := contract(); v != "" {
				outs[k].Violation = v
				flagged = true
			}
		}
	}
	for k, st := range steps {
		if outs[k].Panic || st.Kind == "register" {
			continue
		}
		func() {
			defer func() {
				if e := recover(); e != nil {
					outs[k] = implOut{Panic: true, Note: "late evaluation: " + fmt.Sprint(e)}
				}
			}()
			for m := 0; m < 2; m++ {
				if late := ckbs[k][m].BuildKey(probeCtx{}); late != first[k][m] {
					outs[k].Errs = append(outs[k].Errs, [2]int{98, 0})
					outs[k].Note += " evaluation after the later compiles differs: " + late
				}
			}
		}()
	}
	return outs, extras
}

func seqCases(steps []seqStep, pre int, only int, extraTags ...string) []Case {
	outs, extras := runSeq(steps, pre)
	var cases []Case
	nb := map[int]bool{}
	for _, st := range steps {
		nb[st.Builder] = true
	}
	for k, st := range steps {
		if only >= 0 && k != only || st.Kind == "register" {
			continue
		}
		rs := make([]rune, len(st.Template))
		for i, x := range st.Template {
			rs[i] = rune(x)
		}
		tags := append([]string{fmt.Sprintf("seq-pos=%d", k)}, extraTags...)
		if st.Reg != "" {
			tags = append(tags, "seq-func-registration")
		}
		for j := 0; j < k; j++ {
			if steps[j].Text == st.Text {
				tags = append(tags, "seq-same-template-again")
				break
			}
		}
		if len(nb) > 1 {
			tags = append(tags, fmt.Sprintf("seq-builders=%d", len(nb)))
		}
		if len(extras[k]) > 0 {
			tags = append(tags, "seq-builder-with-own-registrations")
		}
		cases = append(cases, mkCaseOut("sequence/"+st.Kind, st.Claim, rs, outs[k], steps[:k+1], k, pre, extras[k], tags...))
	}
	return cases
}

// ---------------------------------------------------------------- concrete syntax trees (mirror of Model/TmplPrint.v)

type cpiece struct {
	kind      int // 0 CLit, 1 CVar, 2 CCall
	s         []rune
	pre, post []rune
	q         bool
	args      []carg
}
type carg struct {
	sep  []rune
	q    bool
	body []cpiece
}

func quote(q bool, s []rune) []rune {
	if q {
		r := append([]rune{'"'}, s...)
		return append(r, '"')
	}
	return s
}
func printBody(b []cpiece) []rune {
	var r []rune
	for _, p := range b {
		r = append(r, printPiece(p)...)
	}
	return r
}
func printPiece(p cpiece) []rune {
	switch p.kind {
	case 0:
		return p.s
	case 1:
		r := append([]rune{'{'}, p.pre...)
		r = append(r, quote(p.q, p.s)...)
		r = append(r, p.post...)
		return append(r, '}')
	}
	r := append([]rune{'{'}, p.pre...)
	r = append(r, quote(p.q, p.s)...)
	for _, a := range p.args {
		r = append(r, a.sep...)
		r = append(r, quote(a.q, printBody(a.body))...)
	}
	r = append(r, p.post...)
	return append(r, '}')
}

func coqRunes(rs []rune) string {
	if len(rs) == 0 {
		return "[]"
	}
	var sb strings.Builder
	sb.WriteByte('[')
	for i, r := range rs {
		if i > 0 {
			sb.WriteByte(';')
		}
		sb.WriteString(strconv.Itoa(int(r)))
	}
	sb.WriteByte(']')
	return sb.String()
}
func coqInts(xs []int) string {
	rs := make([]rune, len(xs))
	for i, x := range xs {
		rs[i] = rune(x)
	}
	return coqRunes(rs)
}
func coqBody(b []cpiece) string {
	ps := make([]string, len(b))
	for i, p := range b {
		ps[i] = coqPiece(p)
	}
	return CoqList(ps)
}
func coqPiece(p cpiece) string {
	switch p.kind {
	case 0:
		return "CLit " + coqRunes(p.s)
	case 1:
		return fmt.Sprintf("CVar %s %s %s %s", coqRunes(p.pre), B(p.q), coqRunes(p.s), coqRunes(p.post))
	}
	as := make([]string, len(p.args))
	for i, a := range p.args {
		as[i] = fmt.Sprintf("CArg %s %s %s", coqRunes(a.sep), B(a.q), coqBody(a.body))
	}
	return fmt.Sprintf("CCall %s %s %s %s %s", coqRunes(p.pre), B(p.q), coqRunes(p.s), CoqList(as), coqRunes(p.post))
}

// ---------------------------------------------------------------- cases

type c09In struct {
	Kind     string `json:"kind"`
	Template []int  `json:"template_runes"`
	Text     string `json:"template_text"`
	Claim    string `json:"claim_coq"` // Coq term of type TmplPrint.claim
	// sequence cases: the templates compiled one after another on ONE KeyBuilder (per optimisation mode);
	// this case observes compile number Index of it; the model is still a function of this template alone
	Seq   []seqStep `json:"sequence,omitempty"`
	Index int       `json:"sequence_index,omitempty"`
	Pre   int       `json:"builders_created_first,omitempty"`
}

type seqStep struct {
	Kind     string `json:"kind"`
	Template []int  `json:"template_runes"`
	Text     string `json:"template_text"`
	Claim    string `json:"claim_coq"`
	Reg      string `json:"register_before,omitempty"` // KeyBuilder.Func(name, probe) called before this compile
	// several builders made from ONE base function set with KeyBuilder.Funcs(base): the builder this step
	// uses (created at first use unless among the first c09In.Pre); Kind "register": only Func(Reg), no compile
	Builder int `json:"builder,omitempty"`
}

func isSyntax(r rune) bool { return r == '\\' || r == '{' || r == '}' || r == '"' }

// domain of known finding C09-trailing-backslash, decided from the template alone: a (nested)
// Compile sees a string ending in an unpaired backslash only if the template ends in an odd run
// of backslashes or contains four consecutive backslashes (two escape levels: scanner, splitter)
func inTrailingBackslashDomain(rs []rune) bool {
	n := 0
	for i := len(rs) - 1; i >= 0 && rs[i] == '\\'; i-- {
		n++
	}
	if n%2 == 1 {
		return true
	}
	run := 0
	for _, r := range rs {
		if r == '\\' {
			run++
			if run >= 4 {
				return true
			}
		} else {
			run = 0
		}
	}
	return false
}

func mkCase(kind, claim string, tmplRunes []rune, extraTags ...string) Case {
	return mkCaseOut(kind, claim, tmplRunes, runImpl(string(tmplRunes)), nil, 0, 0, nil, extraTags...)
}

// extra: the own registrations of the builder (besides the base set); then the model runs under the
// extended function table and only the raw form (no crash, both builders agree) is claimed
func mkCaseOut(kind, claim string, tmplRunes []rune, out implOut, seq []seqStep, index int, pre int, extra []string, extraTags ...string) Case {
	tmpl := string(tmplRunes)
	rs := []rune(tmpl) // what Compile sees (invalid code points become U+FFFD)
	if len(extra) > 0 {
		claim = "KRaw"
	}
	in := c09In{Kind: kind, Template: toInts(tmpl), Text: tmpl, Claim: claim, Seq: seq, Index: index, Pre: pre}
	var coq string
	if len(extra) > 0 {
		xs := make([]string, len(extra))
		for i, n := range extra {
			xs[i] = coqRunes([]rune(n))
		}
		es := make([]string, len(out.Errs))
		for i, e := range out.Errs {
			es[i] = fmt.Sprintf("(%d,%d)", e[0], e[1])
		}
		if out.Panic || out.Violation != "" {
			coq = fmt.Sprintf("cxP %s %s", CoqList(xs), coqRunes(rs))
		} else {
			coq = fmt.Sprintf("cx %s %s %s %s %s", CoqList(xs), coqRunes(rs), coqInts(out.Out), coqInts(out.OutNoOpt), CoqList(es))
		}
	} else if out.Panic || out.Violation != "" {
		coq = fmt.Sprintf("cP (%s) %s", claim, coqRunes(rs))
	} else {
		es := make([]string, len(out.Errs))
		for i, e := range out.Errs {
			es[i] = fmt.Sprintf("(%d,%d)", e[0], e[1])
		}
		coq = fmt.Sprintf("c (%s) %s %s %s %s", claim, coqRunes(rs), coqInts(out.Out), coqInts(out.OutNoOpt), CoqList(es))
	}
	tags := []string{"kind=" + kind}
	classes := 0
	depth, maxDepth := 0, 0
	var hasBrace, hasQuote, hasBsl, hasOddSpace, hasNonASCII bool
	for _, r := range rs {
		switch {
		case r == '{':
			hasBrace = true
			depth++
			if depth > maxDepth {
				maxDepth = depth
			}
		case r == '}':
			hasBrace = true
			if depth > 0 {
				depth--
			}
		case r == '"':
			hasQuote = true
		case r == '\\':
			hasBsl = true
		case r != ' ' && unicode.IsSpace(r):
			hasOddSpace = true
		}
		if r > 127 {
			hasNonASCII = true
		}
	}
	for _, f := range []struct {
		b bool
		t string
	}{{hasBrace, "brace"}, {hasQuote, "quote"}, {hasBsl, "backslash"}, {hasOddSpace, "space-other-than-0x20"},
		{maxDepth >= 2, "nesting>=2"}, {maxDepth >= 3, "nesting>=3"}, {hasNonASCII, "non-ascii"},
		{strings.Contains(tmpl, `""`), "empty-quoted"}, {len(out.Errs) > 0, "compile-error"}} {
		if f.b {
			tags = append(tags, f.t)
			classes++
		}
	}
	if inTrailingBackslashDomain(rs) {
		tags = append(tags, "kf:C09-trailing-backslash")
	}
	tags = append(tags, extraTags...)
	kb, _ := json.Marshal([]any{claim, in.Template, seq, index, pre})
	return Case{Coq: coq, Desc: map[string]any{"input": in, "impl": out}, Key: string(kb),
		Nontrivial: classes >= 2, Tags: tags}
}

// ---------------------------------------------------------------- generators

var spacePool = []rune{' ', ' ', ' ', ' ', '\t', '\n', '\r', '\v', '\f', 0x85, 0xA0, 0x1680, 0x2000, 0x2003, 0x200A,
	0x2028, 0x2029, 0x202F, 0x205F, 0x3000}
var wordPool = []rune("abcdefgxyzABZ0123456789_-+.:/$@#%|()<>,'`=*&^~!?;[]" +
	"\x00\x01\x7f\u00e9\u00df\u4e2d\U0001F600\ufffd\u200b\u180e\ufeff\U0010FFFF\u0663\u0661\u27e8\u27eb")
var intWords = []string{"0", "1", "2", "7", "12", "-3", "+1", "01", "007", "-0", "+0", "-007", "9223372036854775807",
	"-9223372036854775808", "9223372036854775808", "-9223372036854775809", "99999999999999999999", "+", "-",
	"1a", "a1", "1_0", "0x10", "\u0661\u0662", "1.0", "1e3", "--1", "+-1", "00000000000000000000001", "f0", "g2"}
var probeNames = []string{"f0", "f1", "f2", "f3"}

func genSpaces(r *Rng, min int) []rune {
	n := min
	for n < 4 && r.Chance(1, 4) {
		n++
	}
	s := make([]rune, n)
	for i := range s {
		s[i] = Pick(r, spacePool)
	}
	return s
}

func genChars(r *Rng, lo, hi int, withSpace bool) []rune {
	n := r.Range(lo, hi)
	s := make([]rune, n)
	for i := range s {
		if withSpace && r.Chance(1, 4) {
			s[i] = Pick(r, spacePool)
		} else {
			s[i] = Pick(r, wordPool)
		}
	}
	return s
}

// a word for {w}: returns the word and whether it must/may be quoted
func genVar(r *Rng, allowQuotes bool) cpiece {
	p := cpiece{kind: 1, pre: genSpaces(r, 0), post: genSpaces(r, 0)}
	switch x := r.Intn(10); {
	case x < 4:
		p.s = []rune(Pick(r, intWords))
	case x < 8 || !allowQuotes:
		p.s = genChars(r, 1, 5, false)
	case x == 8:
		p.s = genChars(r, 0, 5, true)
		p.q = true
	default:
		p.s = []rune(Pick(r, intWords))
		p.q = true
	}
	if allowQuotes && r.Chance(1, 6) {
		p.q = true
	}
	return p
}

func genStmt(r *Rng, depth int, allowQuotes bool) cpiece {
	if depth <= 1 && r.Chance(1, 2) || r.Chance(1, 4) {
		return genVar(r, allowQuotes)
	}
	p := cpiece{kind: 2, pre: genSpaces(r, 0), post: genSpaces(r, 0)}
	nargs := 1 + r.Intn(3)
	if r.Chance(1, 12) {
		nargs = 5
	}
	if r.Chance(1, 8) {
		p.s = []rune("g2")
		nargs = 2
	} else {
		p.s = []rune(Pick(r, probeNames))
	}
	if allowQuotes && r.Chance(1, 8) {
		p.q = true
	}
	for i := 0; i < nargs; i++ {
		p.args = append(p.args, genArg(r, depth-1, allowQuotes))
	}
	return p
}

func genArg(r *Rng, depth int, allowQuotes bool) carg {
	a := carg{sep: genSpaces(r, 1)}
	if allowQuotes && r.Chance(1, 3) {
		a.q = true
		if !r.Chance(1, 6) { // else: the empty quoted argument
			a.body = genBody(r, depth, false, false)
		}
		return a
	}
	a.body = genBody(r, depth, allowQuotes, true)
	if len(printBody(a.body)) == 0 {
		a.body = append(a.body, cpiece{kind: 0, s: genChars(r, 1, 3, false)})
	}
	return a
}

func genBody(r *Rng, depth int, allowQuotes, bare bool) []cpiece {
	var b []cpiece
	n := r.Intn(4)
	if depth <= 0 && n > 2 {
		n = 1
	}
	for i := 0; i < n; i++ {
		if depth > 0 && r.Chance(1, 2) {
			b = append(b, genStmt(r, depth, allowQuotes))
		} else {
			lo := 1
			if r.Chance(1, 10) {
				lo = 0
			}
			b = append(b, cpiece{kind: 0, s: genChars(r, lo, 5, !bare)})
		}
	}
	return b
}

func genTmpl(r *Rng, depth int) []cpiece {
	b := genBody(r, depth, true, false)
	if r.Chance(3, 4) {
		b = append(b, genStmt(r, depth, true))
		if r.Chance(1, 2) {
			b = append(b, cpiece{kind: 0, s: genChars(r, 0, 4, true)})
		}
	}
	return b
}

// ---- layered escapes (mirror of Model/TmplPrint.v eprint): literal text over all runes ----
func isSpecial(r rune) bool { return isSyntax(r) || unicode.IsSpace(r) }

func lesc(s []rune) []rune {
	var o []rune
	for _, c := range s {
		if isSpecial(c) {
			o = append(o, '\\')
		}
		o = append(o, c)
	}
	return o
}
func lescn(n int, s []rune) []rune {
	for ; n > 0; n-- {
		s = lesc(s)
	}
	return s
}
func eprintBody(j int, b []cpiece) []rune {
	var r []rune
	for _, p := range b {
		r = append(r, eprintPiece(j, p)...)
	}
	return r
}
func eprintPiece(j int, p cpiece) []rune {
	switch p.kind {
	case 0:
		return lescn(j+1, p.s)
	case 1:
		return printPiece(p)
	}
	r := append([]rune{'{'}, p.pre...)
	r = append(r, quote(p.q, p.s)...)
	for _, a := range p.args {
		r = append(r, a.sep...)
		r = append(r, quote(a.q, eprintBody(j+2, a.body))...)
	}
	r = append(r, p.post...)
	return append(r, '}')
}

var escLitPool = []rune{' ', ' ', '\\', '\\', '{', '}', '"', '\t', '\n', '\r', 'n', 't', 'r', 'a', 'b', 'C', ':', '0', 0x3000, 0xe9, 0x4e2d}

func genEscLit(r *Rng, lo, hi int) []rune {
	n := r.Range(lo, hi)
	s := make([]rune, n)
	for i := range s {
		s[i] = Pick(r, escLitPool)
	}
	return s
}

// calls nested to the given depth whose literal arguments need escaping at every depth;
// quotedStyle: literal arguments in double quotes where possible, else bare (white space escaped)
func genEscStmt(r *Rng, depth int, allowQuotes, quotedStyle bool) cpiece {
	p := cpiece{kind: 2, pre: genSpaces(r, 0), post: genSpaces(r, 0), s: []rune(Pick(r, probeNames))}
	nargs := 1 + r.Intn(3)
	nested := r.Intn(nargs) // this argument carries the nesting
	for i := 0; i < nargs; i++ {
		a := carg{sep: genSpaces(r, 1)}
		q := allowQuotes && (quotedStyle || r.Chance(1, 5))
		inner := allowQuotes && !q
		var body []cpiece
		if depth > 1 && (i == nested || r.Chance(1, 4)) {
			if r.Chance(1, 3) {
				body = append(body, cpiece{kind: 0, s: genEscLit(r, 0, 2)})
			}
			body = append(body, genEscStmt(r, depth-1, inner, quotedStyle))
			if r.Chance(1, 3) {
				body = append(body, cpiece{kind: 0, s: genEscLit(r, 1, 2)})
			}
		} else if r.Chance(1, 6) {
			body = append(body, genVar(r, inner))
		} else {
			lo := 1
			if q && r.Chance(1, 6) {
				lo = 0
			}
			hi := 4
			if depth <= 1 {
				hi = 3
			}
			body = append(body, cpiece{kind: 0, s: genEscLit(r, lo, hi)})
		}
		a.q = q
		if !q && len(eprintBody(0, body)) == 0 {
			body = append(body, cpiece{kind: 0, s: []rune("x")})
		}
		a.body = body
		p.args = append(p.args, a)
	}
	return p
}

func genEscTmpl(r *Rng, depth int, quotedStyle bool) []cpiece {
	var b []cpiece
	if r.Chance(1, 2) {
		b = append(b, cpiece{kind: 0, s: genEscLit(r, 0, 4)})
	}
	b = append(b, genEscStmt(r, depth, true, quotedStyle))
	if r.Chance(1, 2) {
		b = append(b, cpiece{kind: 0, s: genEscLit(r, 1, 4)})
	}
	return b
}

func escRunes(s []rune) []rune {
	var o []rune
	for _, c := range s {
		switch c {
		case '\\', '{', '}':
			o = append(o, '\\', c)
		case '\n':
			o = append(o, '\\', 'n')
		case '\r':
			o = append(o, '\\', 'r')
		case '\t':
			o = append(o, '\\', 't')
		default:
			o = append(o, c)
		}
	}
	return o
}

func genAnyRune(r *Rng) rune {
	for {
		var c rune
		switch x := r.Intn(10); {
		case x < 4:
			c = Pick(r, []rune{'\\', '{', '}', '"', '\n', '\r', '\t', ' ', 'n', 'r', 't', 'a', '0'})
		case x < 6:
			c = rune(r.Intn(128))
		case x < 8:
			c = rune(r.Intn(0x3100))
		default:
			c = rune(r.Intn(0x110000))
		}
		if c >= 0xD800 && c <= 0xDFFF {
			continue
		}
		return c
	}
}

var mutChars = []rune{'{', '}', '"', '\\', ' ', '\t', 'a', '1'}

func mutate(r *Rng, s []rune) []rune {
	s = append([]rune(nil), s...)
	for k := 1 + r.Intn(3); k > 0; k-- {
		switch op := r.Intn(4); {
		case op == 0 && len(s) > 0: // delete, preferably a syntax character
			i := r.Intn(len(s))
			for t := 0; t < 6 && !isSyntax(s[i]); t++ {
				i = r.Intn(len(s))
			}
			s = append(s[:i], s[i+1:]...)
		case op == 1: // insert
			i := r.Intn(len(s) + 1)
			s = append(s[:i], append([]rune{Pick(r, mutChars)}, s[i:]...)...)
		case op == 2 && len(s) > 1: // swap neighbours
			i := r.Intn(len(s) - 1)
			s[i], s[i+1] = s[i+1], s[i]
		default: // replace
			if len(s) > 0 {
				s[r.Intn(len(s))] = Pick(r, mutChars)
			}
		}
	}
	return s
}

func spaceCase() Case {
	const lim = 0x3100
	var spaces []string
	for c := rune(0); c < lim; c++ {
		if unicode.IsSpace(c) {
			spaces = append(spaces, strconv.Itoa(int(c)))
		}
	}
	var sample []string
	for c := rune(lim); c <= 0x10FFFF; c += 0x101 {
		sample = append(sample, fmt.Sprintf("(%d,%s)", c, B(unicode.IsSpace(c))))
	}
	for _, c := range []rune{0xFEFF, 0xFFFD, 0xE0020, 0x1D7D8, 0x10FFFF, 0xFFFF, 0x3164, 0x180E, 0x200B, 0x2060} {
		sample = append(sample, fmt.Sprintf("(%d,%s)", c, B(unicode.IsSpace(c))))
	}
	coq := fmt.Sprintf("cspace %d %s %s", lim, CoqList(spaces), CoqList(sample))
	return Case{Coq: coq, Desc: map[string]any{"input": map[string]any{"kind": "space-table", "limit": lim},
		"impl": map[string]any{"spaces_below_limit": spaces}}, Key: "space-table", Nontrivial: true,
		Tags: []string{"kind=space-table"}}
}

var seqBadArgs = []string{"{nosuch x}", "{}", "{ }", "a{}", "{f9 1 2}", "{f1 {nosuch 1}}", "{f1 {}}", "x{nofn a}{}", "{f2 a {} {nosuch b}}"}
var seqGoodArgs = []string{"{0}", "abc", "{f1 a}", "{k}", "{f2 {1} b}", "7", "{f3 {f1 {0}}}"}
var seqQuotedBad = []string{`"\{0"`, `"a \{f1 b"`, `"{nosuch x} y"`, `"{} "`}

func mkStep(kind, claim string, rs []rune) seqStep {
	t := string(rs)
	return seqStep{Kind: kind, Template: toInts(t), Text: t, Claim: claim}
}

// 2..6 templates for one KeyBuilder: the same template twice, different templates sharing an argument
// text (malformed or well-formed), malformed between well-formed ones, Func() registrations in between
// With probability 1/2 the sequence runs over 2..3 builders made from the same base set (some created
// first, the others at first use): registrations of further functions on one builder, compiles of calls of
// those functions on every builder (unknown-function error claimed wherever the builder did not register it)
func genSeq(r *Rng) ([]seqStep, int) {
	nb, pre := 1, 1
	if r.Chance(1, 2) {
		nb = r.Range(2, 3)
		pre = r.Intn(nb + 1)
	}
	own := map[int]map[string]bool{}
	for b := 0; b < nb; b++ {
		own[b] = map[string]bool{}
	}
	focus := []string{Pick(r, seqBadArgs)}
	if r.Chance(1, 2) {
		focus = append(focus, Pick(r, seqGoodArgs))
	}
	if r.Chance(1, 4) {
		focus = append(focus, Pick(r, seqBadArgs))
	}
	n := r.Range(2, 6)
	if nb > 1 {
		n = r.Range(3, 7)
	}
	var steps []seqStep
	for len(steps) < n {
		var st seqStep
		b := r.Intn(nb)
		if nb > 1 && r.Chance(1, 4) { // a registration only
			name := Pick(r, seqExtraNames[:3])
			own[b][name] = true
			steps = append(steps, seqStep{Kind: "register", Builder: b, Reg: name})
			continue
		}
		if nb > 1 && r.Chance(2, 5) { // a call of a function that some builder may have registered
			name := Pick(r, seqExtraNames[:3])
			call := genStmt(r, 2, true)
			for call.kind != 2 {
				call = genStmt(r, 2, true)
			}
			call.s = []rune(name)
			t, t2 := genTmpl(r, 1), genTmpl(r, 1)
			txt := append(append(printBody(t), printPiece(call)...), printBody(t2)...)
			st = mkStep("function-of-one-builder", fmt.Sprintf("KMissing %s (%s) %s", coqBody(t), coqPiece(call), coqBody(t2)), txt)
			st.Builder = b
			if !own[b][name] && r.Chance(1, 5) { // register it on this builder right before the compile
				st.Reg = name
				own[b][name] = true
			}
			steps = append(steps, st)
			continue
		}
		switch x := r.Intn(20); {
		case x < 5 && len(steps) > 0 && steps[len(steps)-1].Kind != "register": // an earlier template again
			st = steps[len(steps)-1]
			for t := 0; t < 4; t++ {
				if c := steps[r.Intn(len(steps))]; c.Kind != "register" {
					st = c
					break
				}
			}
			st.Reg = ""
		case x < 13: // {f x} after a printed tree, x one of the shared argument texts: exact errors claimed
			var t []cpiece
			if r.Chance(1, 2) {
				t = genTmpl(r, 2)
			}
			f := []rune(Pick(r, probeNames))
			xarg := []rune(Pick(r, focus))
			s := append(append(printBody(t), '{'), f...)
			s = append(append(append(s, ' '), xarg...), '}')
			st = mkStep("shared-argument", fmt.Sprintf("KArg %s %s %s", coqBody(t), coqRunes(f), coqRunes(xarg)), s)
		case x < 16: // several arguments, the shared ones among them (also quoted, with an escaped brace)
			s := []rune("{" + Pick(r, probeNames))
			for k := r.Range(1, 3); k > 0; k-- {
				switch y := r.Intn(4); {
				case y < 2:
					s = append(s, []rune(" "+Pick(r, focus))...)
				case y == 2:
					s = append(s, []rune(" "+Pick(r, seqQuotedBad))...)
				default:
					s = append(s, []rune(" "+Pick(r, seqGoodArgs))...)
				}
			}
			st = mkStep("several-arguments", "KRaw", append(s, '}'))
		case x < 18: // a well-formed tree
			t := genTmpl(r, 3)
			st = mkStep("tree", "KTree "+coqBody(t), printBody(t))
		default: // a mutated tree
			st = mkStep("mutation", "KRaw", mutate(r, printBody(genTmpl(r, 3))))
		}
		st.Builder = b
		if len(steps) > 0 && r.Chance(1, 6) {
			st.Reg = Pick(r, []string{"f0", "f1", "f2", "f3", "g2", "z9z9"})
		}
		steps = append(steps, st)
	}
	return steps, pre
}

func exhaustive(L int) []Case {
	alpha := []rune{'{', '}', '"', '\\', ' ', 'a', '1'}
	var cases []Case
	for l := 0; l <= L; l++ {
		total := 1
		for i := 0; i < l; i++ {
			total *= len(alpha)
		}
		for code := 0; code < total; code++ {
			s := make([]rune, l)
			c := code
			for i := 0; i < l; i++ {
				s[i] = alpha[c%len(alpha)]
				c /= len(alpha)
			}
			cases = append(cases, mkCase("exhaustive", "KRaw", s))
		}
	}
	return cases
}

func c09Gen(r *Rng, n int, tier string) []Case {
	r = r.Fork() // lib.NewRng(seed+1) is NewRng(seed) advanced by one draw: decorrelate the seeds
	cases := []Case{spaceCase()}
	if tier == "thorough" {
		cases = append(cases, exhaustive(4)...)
	} else {
		cases = append(cases, exhaustive(3)...)
	}
	// fixed seeds of interest (documentation examples and the probes of DESIGN 6/C09)
	for _, t := range []string{`abc\`, `{f0 {f1 a}b}`, `{+1}{01}{1x}`, `{f0 a\ b}`, `{f0 "a}b" c}`, `{f0 "" a}`, `{}`, `{ }`,
		`{f0 {} x}`, `a{f0 {f1 {nofn 1 2}} {`, `{f0 a\\\\}`, `{"1"}{""}{"a b"}`, `{f0 a"b c"}`, `{f0 "a""b"}`, `{g2 a}`, `{g2 {} b c}`,
		`{f0 x {f1 {1} a\\\\\\ b} y}`, `{f0 {f1 "a b" "C:\\\\\\\\dir"}}`, `{f0 {f1 {f2 "q\\\\\\"q"}}}`} {
		cases = append(cases, mkCase("seed", "KRaw", []rune(t)))
	}
	for _, sq := range [][]string{
		{"{f0 a {nosuch x}}", "{f0 a {nosuch x}}"},
		{"{f0 a {nosuch x}}", "value: {f0 {0} {nosuch x}}"},
		{"{f0 {} b}", "{f0 {1} {}}"},
		{`{f0 a "\{0"}`, `{f0 b "\{0"}`},
		{"{f0 {f1 {nosuch 1 2}}}", "{f0 x {f1 {nosuch 1 2}} y}"},
		{"{f0 {0}}", "{f1 {nosuch x} {0}}", "{f0 {0}}", "{f2 {nosuch x}}"},
	} {
		var steps []seqStep
		for _, t := range sq {
			steps = append(steps, mkStep("fixed", "KRaw", []rune(t)))
		}
		pre := 1
		cases = append(cases, seqCases(steps, pre, -1, fmt.Sprintf("seq-len=%d", len(steps)))...)
	}
	// two builders from one base set: `twice` registered on builder 0 only; builder 1 created after / before
	for pre := 0; pre <= 2; pre += 2 {
		missing := "KMissing [CLit [120;32]] (CCall [] false [116;119;105;99;101] [CArg [32] false [CVar [] false [48] []]] []) [CLit [32;121]]"
		a := mkStep("fixed", "KRaw", []rune("{twice {0}}"))
		a.Reg = "twice"
		b := mkStep("fixed", missing, []rune("x {twice {0}} y"))
		b.Builder = 1
		a2 := mkStep("fixed", "KRaw", []rune("x {twice {0}} y"))
		steps := []seqStep{a, b, a2}
		cases = append(cases, seqCases(steps, pre, -1, fmt.Sprintf("seq-len=%d", len(steps)))...)
	}
	base := len(cases)
	for len(cases) < base+n {
		depth := 1 + r.Intn(4)
		switch x := r.Intn(100); {
		case x < 8:
			d := 2 + r.Intn(3)
			quotedStyle := r.Bool()
			t := genEscTmpl(r, d, quotedStyle)
			txt := eprintBody(0, t)
			for tries := 0; len(txt) > 900 && tries < 20; tries++ { // 2^(2d+1)-1 backslashes per special rune
				if d > 2 {
					d--
				}
				t = genEscTmpl(r, d, quotedStyle)
				txt = eprintBody(0, t)
			}
			if len(txt) > 900 {
				t = []cpiece{{kind: 0, s: genEscLit(r, 1, 6)}}
				txt = eprintBody(0, t)
			}
			style := "bare"
			if quotedStyle {
				style = "quoted"
			}
			cases = append(cases, mkCase("escaped-tree", "KEscTree "+coqBody(t), txt, fmt.Sprintf("esc-tree-depth=%d", d), "esc-tree-style="+style))
		case x < 45:
			t := genTmpl(r, depth)
			cases = append(cases, mkCase("tree", "KTree "+coqBody(t), printBody(t), fmt.Sprintf("tree-depth=%d", depth)))
		case x < 55:
			n := r.Intn(12)
			s0 := make([]rune, n)
			for i := range s0 {
				s0[i] = genAnyRune(r)
			}
			s0 = []rune(string(s0))
			cases = append(cases, mkCase("esc", "KEsc "+coqRunes(s0), escRunes(s0)))
		case x < 60:
			t, t2 := genTmpl(r, depth), genTmpl(r, 2)
			w := genSpaces(r, 0)
			s := append(append(append(printBody(t), '{'), w...), '}')
			s = append(s, printBody(t2)...)
			cases = append(cases, mkCase("empty-statement", fmt.Sprintf("KEmpty %s %s %s", coqBody(t), coqRunes(w), coqBody(t2)), s))
		case x < 65:
			t := genTmpl(r, depth)
			var q []rune
			open := 0
			for i := r.Intn(10); i > 0; i-- {
				c := Pick(r, []rune{'{', '}', '}', '"', ' ', 'a', 'f', '0', '1', '\t', 0x4e2d})
				if c == '}' && open == 0 {
					continue // would close the statement
				}
				if c == '{' {
					open++
				} else if c == '}' {
					open--
				}
				q = append(q, c)
			}
			s := append(append(printBody(t), '{'), q...)
			cases = append(cases, mkCase("unterminated", fmt.Sprintf("KUnterm %s %s", coqBody(t), coqRunes(q)), s))
		case x < 70:
			t, t2 := genTmpl(r, depth), genTmpl(r, 2)
			call := genStmt(r, 3, true)
			for call.kind != 2 {
				call = genStmt(r, 3, true)
			}
			call.s = []rune(Pick(r, []string{"nofn", "f4", "F0", "f0x", "f", "0", "g", "\u00e9"}))
			s := append(append(printBody(t), printPiece(call)...), printBody(t2)...)
			cases = append(cases, mkCase("missing-function", fmt.Sprintf("KMissing %s (%s) %s", coqBody(t), coqPiece(call), coqBody(t2)), s))
		case x < 75:
			t := genTmpl(r, depth)
			f := []rune(Pick(r, probeNames))
			lit := genChars(r, 0, 4, false)
			w := genSpaces(r, 0)
			s := append(append(printBody(t), '{'), f...)
			s = append(append(append(s, ' '), lit...), '{')
			s = append(append(s, w...), '}', '}')
			cases = append(cases, mkCase("nested-error", fmt.Sprintf("KNested %s %s %s %s", coqBody(t), coqRunes(f), coqRunes(lit), coqRunes(w)), s))
		case x < 80:
			steps, pre := genSeq(r)
			cases = append(cases, seqCases(steps, pre, -1, fmt.Sprintf("seq-len=%d", len(steps)))...)
		case x < 93:
			t := genTmpl(r, depth)
			cases = append(cases, mkCase("mutation", "KRaw", mutate(r, printBody(t))))
		default:
			n := r.Intn(14)
			s := make([]rune, n)
			for i := range s {
				s[i] = Pick(r, []rune{'{', '}', '"', '\\', ' ', 'a', '1', 'f', '0', 'n', '\t', 'g', '2'})
			}
			cases = append(cases, mkCase("raw-random", "KRaw", s))
		}
	}
	// over-escaped renderings ("\\x makes any character literal"): every rune other than n t r may carry a backslash
	// of its own; brace-free, claimed KRaw (compared with the model; judged against the frozen escape table by
	// Corr/C09Case.v mm_search when the driver searches after a broken obligation). Own random stream, appended
	// last: the cases above do not shift.
	r2 := r.Fork()
	for k := 0; k < 20+n/10; k++ {
		m := 1 + r2.Intn(10)
		var o []rune
		for i := 0; i < m; i++ {
			var c rune
			if r2.Intn(3) == 0 {
				c = genAnyRune(r2)
			} else {
				c = rune(Pick(r2, []byte("abefvx0179 AZ_\"-.,%")))
			}
			switch c {
			case '\\', '{', '}':
				o = append(o, '\\', c)
			case '\n':
				o = append(o, '\\', 'n')
			case '\r':
				o = append(o, '\\', 'r')
			case '\t':
				o = append(o, '\\', 't')
			case 'n', 'r', 't':
				o = append(o, c)
			default:
				if r2.Intn(2) == 0 {
					o = append(o, '\\')
				}
				o = append(o, c)
			}
		}
		o = []rune(string(o))
		cases = append(cases, mkCase("over-esc", "KRaw", o))
	}
	return cases
}

func main() {
	Main(&Prop{
		Name:   "C09",
		Header: "From Coq Require Import List NArith.\nFrom RareV Require Import Model.Tmpl Model.TmplPrint Corr.C09Case.\nImport ListNotations.\nOpen Scope N_scope.\n",
		Rule: "1 table case (unicode.IsSpace on every rune < 0x3100 + sample of the other planes vs Model/IsSpace.v); exhaustive small scope (every string of length <= 3 (quick) / 4 (thorough) over { } \" \\ space a 1); " +
			"16 fixed templates; then seeded random: 37% concrete syntax trees of depth <= 4 (calls of probes f0..f3/g2, group and key look-ups incl. Atoi edge spellings, literals over a pool with NUL, non-ASCII and astral runes) printed with a random admissible layout (Unicode white-space runs, quoted/bare items, empty quoted argument) claimed to evaluate as the tree dictates; " +
			"8% trees of call depth 2..4 whose literal arguments are over space, backslash, braces, double quote, TAB/LF/CR, the letters n t r and non-ASCII runes at every depth, printed with layered escapes (2^(2d+1)-1 backslashes before a special rune at call depth d; arguments quoted or bare) and claimed to evaluate as the tree dictates (C09_print_parse_escaped); " +
			"10% escaped renderings of random strings over the full rune range (round trip); plus 20 + n/10 brace-free OVER-escaped renderings (any rune other than n t r may carry its own backslash; letters v f e a b x, digits and punctuation among them), compared with the model; 20% error shapes (empty statement, unterminated statement, unknown function, empty statement inside an argument: re-based offset) around printed trees with the exact error list claimed; 13% mutations (delete/insert/swap/replace a brace, quote, backslash or space) of printed trees; 7% random strings over a syntax-heavy alphabet. " +
			"13% of the random draws are SEQUENCES: 2..6 templates compiled one after another on the same KeyBuilder (the same template twice; different templates sharing a malformed or well-formed argument text, claimed with the exact re-based error list of C09_err_rebase; malformed between well-formed; quoted arguments with an escaped brace; Func() re-registrations in between), each compile compared with the model of that template alone and evaluated both at once and after the whole sequence; half of the sequences run over 2..3 builders made with Funcs(base) from ONE base map (created before or after the registrations): registrations of h0/h1/twice on one builder, calls of them on every builder (exact unknown-function error claimed where the builder did not register it; model under the extended table where it did), HasFunc of every builder = base set + own registrations and the base map unchanged after every compile; 8 fixed sequences. " +
			"Observables: BuildKey output against the recording context with the optimising and the plain builder, compile errors (kind, rune offset); a panic is an observable. " +
			"distinct = distinct (claim, template); non-trivial = at least two of: brace, quote, backslash, white space other than U+0020, nesting >= 2, nesting >= 3, non-ASCII, empty quoted item, compile error.",
		Gen: c09Gen,
		Replay: func(d json.RawMessage) (Case, error) {
			var doc struct {
				Input c09In `json:"input"`
			}
			if err := json.Unmarshal(d, &doc); err != nil {
				return Case{}, err
			}
			if doc.Input.Kind == "space-table" {
				return spaceCase(), nil
			}
			if len(doc.Input.Seq) > 0 {
				cs := seqCases(doc.Input.Seq, doc.Input.Pre, doc.Input.Index)
				if len(cs) != 1 {
					return Case{}, fmt.Errorf("sequence_index %d out of range", doc.Input.Index)
				}
				return cs[0], nil
			}
			rs := make([]rune, len(doc.Input.Template))
			for i, x := range doc.Input.Template {
				rs[i] = rune(x)
			}
			claim := doc.Input.Claim
			if claim == "" {
				claim = "KRaw"
			}
			return mkCase(doc.Input.Kind, claim, rs), nil
		},
		Shard: 110,
	})
}
