//go:build verif

package stdmath

// Verification hook (add-only, compiled only with -tags verif): prints the compiled
// expression tree so that the correspondence check of /verif (property C19) can compare it
// structurally with the tree the Coq model builds. No production code path is changed.

import (
	"fmt"
	"math"
	"reflect"
	"sort"
	"strings"
)

// VerifDump renders a compiled expression as an S-expression:
//
//	(val <float64 bits, hex>) (named "<name>") (idx <n>) (un <name> X) (bin <opcode> L R)
//
// The unary operator is identified by looking the function value up in uniOps; if it is not
// found (or is ambiguous) the name is "?" (or the sorted names joined by '|').
func VerifDump(e Expr) string {
	var sb strings.Builder
	verifDump(&sb, e)
	return sb.String()
}

func verifUnaryName(f OpUnary) string {
	p := reflect.ValueOf(f).Pointer()
	var names []string
	for k, v := range uniOps {
		if reflect.ValueOf(v).Pointer() == p {
			names = append(names, string(k))
		}
	}
	if len(names) == 0 {
		return "?"
	}
	sort.Strings(names)
	return strings.Join(names, "|")
}

func verifDump(sb *strings.Builder, e Expr) {
	switch x := e.(type) {
	case *exprVal:
		fmt.Fprintf(sb, "(val %016x)", math.Float64bits(x.v))
	case *exprNamedVar:
		fmt.Fprintf(sb, "(named %q)", x.name)
	case *exprIndexVar:
		fmt.Fprintf(sb, "(idx %d)", x.idx)
	case *exprUnary:
		fmt.Fprintf(sb, "(un %s ", verifUnaryName(x.op))
		verifDump(sb, x.ex)
		sb.WriteString(")")
	case *exprBinary:
		fmt.Fprintf(sb, "(bin %s ", string(x.opCode))
		verifDump(sb, x.left)
		sb.WriteString(" ")
		verifDump(sb, x.right)
		sb.WriteString(")")
	default:
		fmt.Fprintf(sb, "(unknown %T)", e)
	}
}
