//go:build verif

package multiterm

// Verification hook (add-only, compiled only with -tags verif): the terminal size used by
// WriteLineNoWrap / TermRows / TermCols is captured once in init() and only from a real TTY;
// the C20 correspondence harness needs to run the unchanged writers at every width.
// AutoTrim is an exported variable and is set directly by the harness.

// VerifSetTermSize sets the computed terminal size and returns the previous one.
func VerifSetTermSize(rows, cols int) (prevRows, prevCols int) {
	prevRows, prevCols = computedRows, computedCols
	computedRows, computedCols = rows, cols
	return
}
