#!/bin/bash
# tryseed.sh <prop> <seed-dir-with-patch.diff> [seedval]  — apply a candidate breaking change in a scratch worktree and run the check
set -u
P=$1; D=$2; S=${3:-1}
W=/tmp/wt/try-$P-$$
git -C /repo worktree add -q $W HEAD || exit 2
if ! git -C $W apply $D/patch.diff; then echo "PATCH DOES NOT APPLY"; git -C /repo worktree remove --force $W; exit 2; fi
(cd $W && GOFLAGS=-mod=mod GOPROXY=off GOSUMDB=off GOTOOLCHAIN=local go build ./... ) || echo "BUILD FAILS"
VERIF_SEED=$S VERIF_REPO=$W /verif/check $P quick | cut -c1-220 | head -5
git -C /repo worktree remove --force $W
