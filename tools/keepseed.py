#!/usr/bin/env python3
"""keepseed.py <prop> <seed-out-dir> <name>   — maintainer helper for seeded breaking changes.
Confirms, in scratch worktrees of /repo HEAD: the patch applies, the tree builds, the existing test suite
still passes with it, the demonstration fails with the patch and passes without it; then runs the
property's quick check against the patched tree and records everything in /verif/seeded/<name>/."""
import json, os, re, shutil, subprocess, sys, time
ROOT = os.path.dirname(os.path.dirname(os.path.abspath(__file__)))
prop, src, name = sys.argv[1], sys.argv[2].rstrip("/"), sys.argv[3]
ENV = dict(os.environ, GOFLAGS="-mod=mod", GOPROXY="off", GOSUMDB="off", GOTOOLCHAIN="local")
meta = json.load(open(os.path.join(src, "meta.json")))
how = meta.get("how_to_run", "")
seed_wt = re.search(r"/tmp/seed\d*/C\d+(?![\w.])", how)
seed_wt = seed_wt.group(0) if seed_wt else "/tmp/seed/" + prop

def sh(cmd, cwd=None, timeout=1800):
    p = subprocess.run(cmd, cwd=cwd, env=ENV, shell=True, stdout=subprocess.PIPE, stderr=subprocess.STDOUT, timeout=timeout)
    return p.returncode, p.stdout.decode("utf-8", "replace")

def demo_cmds(wt):
    """derive (copy commands, test command) from how_to_run, re-targeted at worktree wt"""
    h = how.replace(seed_wt + ".out", "@@OUT@@").replace(seed_wt, wt).replace("@@OUT@@", seed_wt + ".out")
    h = re.sub(r"\s#.*", "", h)   # drop trailing shell comments
    cps = re.findall(r"cp\s+\S+\s+\S+", h)
    tests = re.findall(r"(?:timeout\s+\d+\s+)?go\s+(?:test|run)\s+[^;&#\n]*", h)
    extra = re.findall(r"(?:(?:bash|sh)\s+)?/\S+\.sh[^;&#\n]*", h)
    extra = [re.sub(r"\s{2,}\(.*$", "", e) for e in extra]   # trailing prose in parentheses
    extra = [e for e in extra if "<" not in e]   # prose such as `cli_check.sh <rare-binary> 1` is not a command
    tests = [re.sub(r"\s\((?:FAILS|PASSES|fails|passes|with|without)[^)]*\).*$", "", t) for t in tests]   # trailing prose
    tests = [t for t in tests if "./" in t or " -run" in t]                                           # "go test command (PASSES)" is prose
    return cps, tests + extra

def run_demo(wt):
    cps, tests = demo_cmds(wt)
    created = []
    for c in cps:
        dst = c.split()[-1]
        if not os.path.isabs(dst):
            dst = os.path.join(wt, dst)
        sh(c, cwd=wt)
        created.append(dst)
    rc_all, out_all = 0, ""
    for t in tests:
        rc, out = sh(t, cwd=wt)
        rc_all |= (rc != 0)
        out_all += "$ %s\n%s\n" % (t, out[-1500:])
    for f in created:
        if os.path.isfile(f):
            os.remove(f)
    return rc_all, out_all, cps, tests

res = {"property": prop, "name": name}
A, B = "/tmp/wt/keepA-%d" % os.getpid(), "/tmp/wt/keepB-%d" % os.getpid()
try:
    for w in (A, B):
        rc, out = sh("git -C /repo worktree add -q %s HEAD" % w)
        assert rc == 0, out
    rc, out = sh("git apply %s/patch.diff" % src, cwd=A)
    res["patch_applies"] = rc == 0
    assert rc == 0, out
    rc, out = sh("go build ./...", cwd=A)
    res["builds_with_patch"] = rc == 0
    rc, out = sh("timeout 1500 go test -vet=off -count=1 -skip TestTryWriteCSV ./... 2>&1 | grep -v '^ok\\|no test files' | tail -15", cwd=A)
    res["existing_tests_with_patch"] = "pass" if "FAIL" not in out else "FAIL: " + out[-600:]
    rcA, outA, cps, tests = run_demo(A)
    rcB, outB, _, _ = run_demo(B)
    res["demo_commands"] = {"copy": cps, "run": tests}
    res["demo_fails_with_patch"] = bool(rcA)
    res["demo_passes_without_patch"] = not rcB
    res["demo_output_with_patch_tail"] = outA[-700:]
    t0 = time.time()
    rc, out = sh("VERIF_REPO=%s %s/check %s quick" % (A, ROOT, prop), cwd=ROOT, timeout=3000)
    res["check_exit"] = rc
    res["check_output"] = out[-900:]
    res["check_seconds"] = round(time.time() - t0, 1)
    res["caught"] = rc == 1 and "VIOLATION property=%s" % prop in out
    res["caught_with_failing_input"] = res["caught"] and "no-failing-input-found" not in out
finally:
    for w in (A, B):
        sh("git -C /repo worktree remove --force %s" % w)
confirmed = res.get("patch_applies") and res.get("builds_with_patch") and res.get("existing_tests_with_patch") == "pass" \
    and res.get("demo_fails_with_patch") and res.get("demo_passes_without_patch")
res["confirmed"] = bool(confirmed)
print(json.dumps({k: res[k] for k in res if k not in ("demo_output_with_patch_tail",)}, indent=1)[:2500])
if confirmed:
    dst = os.path.join(ROOT, "seeded", name)
    os.makedirs(dst, exist_ok=True)
    for f in os.listdir(src):
        if os.path.isfile(os.path.join(src, f)):
            shutil.copy(os.path.join(src, f), os.path.join(dst, f))
    meta.update({"breaks_property": prop, "maintainer_verification": res,
                 "what_i_ran": "tools/keepseed.py %s %s %s (scratch worktrees of /repo HEAD: git apply, go build ./..., go test ./... -skip TestTryWriteCSV, demo with and without the patch, VERIF_REPO=<patched> ./check %s quick)" % (prop, src, name, prop)})
    json.dump(meta, open(os.path.join(dst, "meta.json"), "w"), indent=1)
    print("KEPT as seeded/%s  caught=%s" % (name, res.get("caught")))
else:
    print("NOT CONFIRMED — not kept")
