#!/usr/bin/env python3
"""applyfix.py <kf-id> "<commit subject after 'fix: '>"   — maintainer helper.
Applies fixes/<kf-id>.patch to /repo (git apply), runs the tests of the touched packages, commits it as
one unguarded 'fix:' commit, marks the finding fixed (with the commit) in known_findings.d and adds its
failing case to corpus/<prop>/ so that it is replayed on every run."""
import glob, json, os, subprocess, sys
ROOT = os.path.dirname(os.path.dirname(os.path.abspath(__file__)))
kid, subject = sys.argv[1], sys.argv[2]
env = dict(os.environ, GOFLAGS="-mod=mod", GOPROXY="off", GOSUMDB="off", GOTOOLCHAIN="local")
entry = None
for f in glob.glob(os.path.join(ROOT, "known_findings.d", "*.json")):
    es = json.load(open(f))
    for e in es:
        if e["id"] == kid:
            entry, efile, entries = e, f, es
if entry is None:
    sys.exit("no such finding " + kid)
patch = os.path.join(ROOT, entry.get("fix_patch") or "fixes/%s.patch" % kid)
def run(cmd, **kw):
    print("+", " ".join(cmd)); return subprocess.run(cmd, **kw)
if run(["git", "-C", "/repo", "apply", "--check", patch]).returncode != 0:
    sys.exit("patch does not apply")
run(["git", "-C", "/repo", "apply", patch], check=True)
files = subprocess.check_output(["git", "-C", "/repo", "diff", "--name-only"]).decode().split()
pkgs = sorted({"./" + os.path.dirname(f) + "/..." for f in files if f.endswith(".go")})
r = run(["go", "test", "-vet=off", "-count=1", "-skip", "TestTryWriteCSV"] + pkgs, cwd="/repo", env=env)  # TestTryWriteCSV fails as root on the pinned tree too (not in BASELINE stable_pass)
if r.returncode != 0:
    run(["git", "-C", "/repo", "checkout", "--", "."])
    sys.exit("tests fail with the patch; reverted")
run(["gofmt", "-l"] + files, cwd="/repo")
run(["git", "-C", "/repo", "commit", "-qam", "fix: " + subject], check=True)
sha = subprocess.check_output(["git", "-C", "/repo", "rev-parse", "--short", "HEAD"]).decode().strip()
entry["status"] = "fixed"; entry["commit"] = sha
json.dump(entries, open(efile, "w"), indent=1)
if "case" in entry:
    d = os.path.join(ROOT, "corpus", entry["property"]); os.makedirs(d, exist_ok=True)
    json.dump({"origin": "input of fixed finding " + kid, "case": entry["case"]}, open(os.path.join(d, kid + ".json"), "w"), indent=1)
print("fixed", kid, sha)
