#!/usr/bin/env python3
"""Regenerates MANIFEST.json from props/*.json (claimed checks) and properties.jsonl (the rest -> not_applicable)."""
import glob, json, os
ROOT = os.path.dirname(os.path.dirname(os.path.abspath(__file__)))
props = {}
for f in sorted(glob.glob(os.path.join(ROOT, "props", "C*.json"))):
    d = json.load(open(f)); props[d["id"]] = d
allids = [json.loads(l)["id"] for l in open(os.path.join(ROOT, "properties.jsonl"))]
hooks_commits = [l.split()[0] for l in open(os.path.join(ROOT, "MANIFEST.hooks")) if l.strip() and not l.startswith("#")] if os.path.exists(os.path.join(ROOT, "MANIFEST.hooks")) else []
checks = []
for pid in allids:
    if pid not in props or props[pid].get("claimed") is False: continue
    P = props[pid]
    checks.append(dict(
        property_id=pid,
        quick_cmd="./check %s quick" % pid,
        thorough_cmd="./check %s thorough" % pid,
        evidence_file="/verif/evidence/%s.json" % pid,
        replay_cmd_template="./check %s quick --replay {path}" % pid,
        engine="coq-proof+correspondence",
        level_claimed=dict(category="proof", text=P["level_text"], design_ref=P.get("design_ref", "DESIGN.md §6 " + pid)),
        level_note=P["level_note"],
        technique=P.get("technique", "machine-checked proof in Coq 8.16 over an executable model; model tied to /repo by translator-regenerated tables and a differential correspondence check (vm_compute)"),
    ))
na = []
for pid in allids:
    if pid in props and props[pid].get("claimed") is not False: continue
    reason = props[pid].get("na_reason", "check under construction: not yet passing on the unchanged tree, so it is not registered") if pid in props else "not built yet in this development (model and theorems planned in DESIGN.md §6; no check is registered, so nothing is claimed)"
    na.append(dict(property_id=pid, reason=reason))
m = dict(
    version=1,
    setup_cmd="./check setup",
    hooks=dict(guard="verif", enable="go build -tags verif (the harness in /verif/harness imports rare => /repo and is built with -tags verif)",
               baseline_off_cmd="cd /repo && GOFLAGS=-mod=mod GOPROXY=off GOSUMDB=off GOTOOLCHAIN=local go test -vet=off -count=1 -timeout 25m ./...",
               source_commits=hooks_commits, add_only=True),
    engines=[dict(name="coq-proof+correspondence", path="/verif/check", serves_properties=[c["property_id"] for c in checks],
                  kind_free_text="Coq 8.16.1 theorems over hand-written executable models (coq/Model, coq/Proofs, coq/Props), translator tools/gentables (coq/Gen), Go correspondence harness (harness/) evaluated by vm_compute")],
    checks=checks,
    notes="Every check: translator -> make Props/Cxx.vo -> harness gen -> coqc case shards -> decision (DESIGN.md §2, §5). Known findings: known_findings.json.",
    not_applicable=na,
)
json.dump(m, open(os.path.join(ROOT, "MANIFEST.json"), "w"), indent=1)
print("claimed:", [c["property_id"] for c in checks])
