#!/usr/bin/env python3
"""seedbase.py — records in every seeded/<name>/meta.json the newest /repo commit its patch.diff applies to
(`applies_to`): HEAD when it still applies, otherwise the newest ancestor where it does (later fix: commits
touched the same lines). Run after /repo moved."""
import glob, json, os, subprocess
ROOT = os.path.dirname(os.path.dirname(os.path.abspath(__file__)))
commits = subprocess.run("git -C /repo log --format=%h -n 80", shell=True, stdout=subprocess.PIPE).stdout.decode().split()
WT = "/tmp/wt/seedbase"
subprocess.run("git -C /repo worktree add -q --detach %s HEAD" % WT, shell=True)
try:
    for d in sorted(glob.glob(os.path.join(ROOT, "seeded", "*"))):
        pf, mf = os.path.join(d, "patch.diff"), os.path.join(d, "meta.json")
        if not (os.path.exists(pf) and os.path.exists(mf)):
            continue
        found = None
        for c in commits:
            subprocess.run("git checkout -q --detach %s" % c, shell=True, cwd=WT)
            if subprocess.run("git apply --check %s" % pf, shell=True, cwd=WT, stderr=subprocess.DEVNULL).returncode == 0:
                found = c
                break
        m = json.load(open(mf))
        m["applies_to"] = found or "none of the last 80 commits"
        m["applies_to_head"] = (found == commits[0])
        json.dump(m, open(mf, "w"), indent=1)
        if found != commits[0]:
            print(os.path.basename(d), "->", found)
finally:
    subprocess.run("git -C /repo worktree remove --force %s" % WT, shell=True)
