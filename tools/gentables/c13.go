package main

// C13: the contextual sort sets of pkg/aggregation/sorting/contextual.go -> coq/Gen/GenSortSets.v

import (
	"fmt"
	"go/ast"
	"strings"
)

func init() {
	generators = append(generators, func() {
		const rel = "pkg/aggregation/sorting/contextual.go"
		g := newGen("GenSortSets", "Sort sets of ByContextual (name, position), in source order; sortSets in lookup order.")
		set := func(name string) {
			e := findValue(rel, name)
			if e == nil {
				return
			}
			cl, ok := e.(*ast.CompositeLit)
			if !ok {
				fail("%s: %s is not a composite literal", rel, name)
				return
			}
			var rows []string
			for _, el := range cl.Elts {
				kv, ok := el.(*ast.KeyValueExpr)
				if !ok {
					fail("%s: %s: element is not key: value", rel, name)
					return
				}
				k, ok1 := strLit(kv.Key)
				v, ok2 := evalInt(kv.Value, nil)
				if !ok1 || !ok2 {
					fail("%s: %s: entry %s is not \"string\": int", rel, name, exprString(kv.Key))
					return
				}
				rows = append(rows, fmt.Sprintf("  (%s, %s) (* %q *)", coqBytes(k), coqZ(v.ExactString()), k))
			}
			val := "[\n" + strings.Join(rows, ";\n") + "\n]"
			if len(rows) == 0 {
				val = "[]"
			}
			g.def("set_"+name, "list (list N * Z)", val, rel+": var "+name)
		}
		set("weekdays")
		set("months")
		// lookup order of inferSortSetByValue
		e := findValue(rel, "sortSets")
		if e != nil {
			cl, ok := e.(*ast.CompositeLit)
			if !ok {
				fail("%s: sortSets is not a composite literal", rel)
			} else {
				var names []string
				for _, el := range cl.Elts {
					id, ok := el.(*ast.Ident)
					if !ok || (id.Name != "weekdays" && id.Name != "months") {
						fail("%s: sortSets: unexpected element %s (translator knows weekdays, months)", rel, exprString(el))
						return
					}
					names = append(names, "set_"+id.Name)
				}
				g.def("sortSets", "list (list (list N * Z))", "["+strings.Join(names, "; ")+"]", rel+": var sortSets (order in which inferSortSetByValue tries the sets)")
			}
		}
		gens = append(gens, g)
	})
}
