package main

// C18: tables of pkg/expressions/stdlib/funcsTime.go -> coq/Gen/GenTime.v
//   timeFormats (name -> Go layout; time.X constants resolved by reading the string constants of
//   GOROOT/src/time/format.go), the bucket-word -> layout chain of timeBucketToFormat, the keys
//   of attrType, the error markers, and Go's month / weekday name tables.

import (
	"go/ast"
	"go/parser"
	"go/token"
	"os/exec"
	"path/filepath"
	"runtime"
	"sort"
	"strings"
)

func c18GoTimeFile() *ast.File {
	roots := []string{runtime.GOROOT()}
	if out, err := exec.Command("go", "env", "GOROOT").Output(); err == nil {
		roots = append(roots, strings.TrimSpace(string(out)))
	}
	for _, r := range roots {
		if r == "" {
			continue
		}
		f, err := parser.ParseFile(fset, filepath.Join(r, "src", "time", "format.go"), nil, 0)
		if err == nil {
			return f
		}
	}
	fail("c18: cannot read GOROOT/src/time/format.go (needed to resolve time.RFC3339 etc.)")
	return nil
}

// string constants and []string tables of the Go time package
func c18GoTime() (consts map[string]string, tables map[string][]string) {
	consts, tables = map[string]string{}, map[string][]string{}
	f := c18GoTimeFile()
	if f == nil {
		return
	}
	for _, d := range f.Decls {
		gd, ok := d.(*ast.GenDecl)
		if !ok {
			continue
		}
		for _, s := range gd.Specs {
			vs, ok := s.(*ast.ValueSpec)
			if !ok {
				continue
			}
			for i, n := range vs.Names {
				if i >= len(vs.Values) {
					continue
				}
				if s, ok := strLit(vs.Values[i]); ok && gd.Tok == token.CONST {
					consts[n.Name] = s
				}
				if cl, ok := vs.Values[i].(*ast.CompositeLit); ok {
					var xs []string
					good := true
					for _, e := range cl.Elts {
						s, ok := strLit(e)
						good = good && ok
						xs = append(xs, s)
					}
					if good && len(xs) > 0 {
						tables[n.Name] = xs
					}
				}
			}
		}
	}
	return
}

func coqBytesList(xs []string) string {
	parts := make([]string, len(xs))
	for i, x := range xs {
		parts[i] = coqBytes(x)
	}
	return "[" + strings.Join(parts, ";\n   ") + "]"
}

func init() {
	generators = append(generators, func() {
		const rel = "pkg/expressions/stdlib/funcsTime.go"
		g := newGen("GenTime", "Tables of "+rel+" (C18).")
		goConsts, goTables := c18GoTime()

		// resolves a layout expression: literal | local const | time.X
		var resolve func(e ast.Expr, depth int) (string, bool)
		resolve = func(e ast.Expr, depth int) (string, bool) {
			if s, ok := strLit(e); ok {
				return s, true
			}
			switch x := e.(type) {
			case *ast.SelectorExpr:
				if id, ok := x.X.(*ast.Ident); ok && id.Name == "time" {
					s, ok := goConsts[x.Sel.Name]
					return s, ok
				}
			case *ast.Ident:
				if depth < 4 {
					if v := findValue(rel, x.Name); v != nil {
						return resolve(v, depth+1)
					}
				}
			}
			return "", false
		}

		// timeFormats
		type kv struct{ k, v string }
		var fmts []kv
		if e := findValue(rel, "timeFormats"); e != nil {
			cl, ok := e.(*ast.CompositeLit)
			if !ok {
				fail("%s: timeFormats is not a composite literal", rel)
			} else {
				for _, el := range cl.Elts {
					p, ok := el.(*ast.KeyValueExpr)
					if !ok {
						fail("%s: timeFormats: unexpected element", rel)
						continue
					}
					k, ok1 := strLit(p.Key)
					v, ok2 := resolve(p.Value, 0)
					if !ok1 || !ok2 {
						fail("%s: timeFormats: cannot resolve entry %s: %s", rel, exprString(p.Key), exprString(p.Value))
						continue
					}
					fmts = append(fmts, kv{k, v})
				}
			}
		}
		sort.SliceStable(fmts, func(i, j int) bool { return fmts[i].k < fmts[j].k })
		var parts []string
		for _, p := range fmts {
			parts = append(parts, "("+coqBytes(p.k)+", "+coqBytes(p.v)+") (* "+p.k+" = "+p.v+" *)")
		}
		g.def("timeFormats", "list (list N * list N)", "[\n   "+strings.Join(parts, ";\n   ")+"]",
			rel+": var timeFormats (sorted by name; time.X resolved from GOROOT/src/time/format.go)")

		if e := findValue(rel, "defaultTimeFormat"); e != nil {
			s, ok := resolve(e, 0)
			if !ok {
				fail("%s: defaultTimeFormat cannot be resolved", rel)
			}
			g.def("defaultTimeFormat", "list N", coqBytes(s), rel+": const defaultTimeFormat = "+s)
		}

		// timeBucketToFormat: if isPartialString(name, "<word>") { return "<layout>" } else if ...
		var buckets []kv
		if fd := findFunc(rel, "timeBucketToFormat"); fd != nil && fd.Body != nil {
			for _, st := range fd.Body.List {
				ifs, ok := st.(*ast.IfStmt)
				for ok && ifs != nil {
					call, okc := ifs.Cond.(*ast.CallExpr)
					good := false
					if okc && exprString(call.Fun) == "isPartialString" && len(call.Args) == 2 && len(ifs.Body.List) == 1 {
						if rs, okr := ifs.Body.List[0].(*ast.ReturnStmt); okr && len(rs.Results) == 1 {
							w, ok1 := strLit(call.Args[1])
							l, ok2 := strLit(rs.Results[0])
							if ok1 && ok2 {
								buckets = append(buckets, kv{w, l})
								good = true
							}
						}
					}
					if !good {
						fail("%s: timeBucketToFormat: branch not of the form `if isPartialString(name, \"w\") { return \"layout\" }`", rel)
					}
					switch el := ifs.Else.(type) {
					case *ast.IfStmt:
						ifs = el
					case nil:
						ifs = nil
					default:
						fail("%s: timeBucketToFormat: unexpected else block", rel)
						ifs = nil
					}
				}
			}
			if len(buckets) == 0 {
				fail("%s: timeBucketToFormat: no bucket branches found", rel)
			}
		}
		parts = nil
		for _, p := range buckets {
			parts = append(parts, "("+coqBytes(p.k)+", "+coqBytes(p.v)+") (* "+p.k+" -> "+p.v+" *)")
		}
		g.def("timeBuckets", "list (list N * list N)", "[\n   "+strings.Join(parts, ";\n   ")+"]",
			rel+": func timeBucketToFormat, branches in order (isPartialString(lower(name), word) -> layout)")

		// attrType keys
		var keys []string
		if e := findValue(rel, "attrType"); e != nil {
			if cl, ok := e.(*ast.CompositeLit); ok {
				for _, el := range cl.Elts {
					if p, ok := el.(*ast.KeyValueExpr); ok {
						if k, ok := strLit(p.Key); ok {
							keys = append(keys, k)
							continue
						}
					}
					fail("%s: attrType: unexpected element", rel)
				}
			} else {
				fail("%s: attrType is not a composite literal", rel)
			}
		}
		sort.Strings(keys)
		g.def("timeAttrKeys", "list (list N)", coqBytesList(keys), rel+": var attrType, keys (sorted)")

		g.def("timeErrorParsing", "list N", coqBytes(strConst("pkg/expressions/stdlib/errors.go", "ErrorParsing")),
			"pkg/expressions/stdlib/errors.go: const ErrorParsing")
		g.def("timeErrorNum", "list N", coqBytes(strConst("pkg/expressions/stdlib/errors.go", "ErrorNum")),
			"pkg/expressions/stdlib/errors.go: const ErrorNum")

		for _, t := range []string{"shortMonthNames", "longMonthNames", "shortDayNames", "longDayNames"} {
			xs, ok := goTables[t]
			if !ok {
				fail("c18: GOROOT/src/time/format.go: table %s not found", t)
			}
			g.def("go_"+t, "list (list N)", coqBytesList(xs), "GOROOT/src/time/format.go: var "+t)
		}
		gens = append(gens, g)
	})
}
