package main

// C14: palettes and rune tables of pkg/multiterm/termunicode/*.go and the SGR codes of
// pkg/color/coloring.go that the renderers use -> coq/Gen/GenPalette.v
// (strings are lists of code points; the index-range theorems of Props/C14.v are stated
// against the lengths of these tables).

import (
	"fmt"
	"go/ast"
	"go/token"
	"strconv"
	"strings"
)

func coqRunes(s string) string {
	var parts []string
	for _, r := range s {
		parts = append(parts, strconv.Itoa(int(r)))
	}
	return "[" + strings.Join(parts, ";") + "]%N"
}

func init() {
	generators = append(generators, func() {
		g := newGen("GenPalette", "Rune tables and palettes of termunicode (bars, heat, spark) and the SGR codes of pkg/color used by the renderers; strings are lists of code points.")
		// ---- pkg/color ----
		const crel = "pkg/color/coloring.go"
		cenv := strConstEnv(crel)
		for _, n := range []string{"Reset", "Yellow", "Blue", "Cyan", "BrightBlack", "BrightBlue", "BrightCyan", "BrightWhite", "Underline"} {
			v, ok := cenv[n]
			if !ok {
				fail("%s: constant %s not found", crel, n)
			}
			g.def("col_"+n, "list N", coqRunes(v), crel+": "+n)
		}
		strTable := func(rel, name string, env map[string]string, coqName string) {
			e := findValue(rel, name)
			if e == nil {
				return
			}
			cl, ok := e.(*ast.CompositeLit)
			if !ok {
				fail("%s: %s is not a composite literal", rel, name)
				return
			}
			var rows []string
			for _, el := range cl.Elts {
				v, ok := evalStr(el, env)
				if !ok {
					fail("%s: %s: element %s is not a constant string", rel, name, exprString(el))
					return
				}
				rows = append(rows, coqRunes(v))
			}
			g.def(coqName, "list (list N)", "["+strings.Join(rows, ";\n  ")+"]", rel+": "+name)
		}
		strTable(crel, "GroupColors", cenv, "col_GroupColors")

		// ---- termunicode ----
		runeOf := func(rel string, e ast.Expr, what string) (rune, bool) {
			bl, ok := e.(*ast.BasicLit)
			if !ok || bl.Kind != token.CHAR {
				fail("%s: %s is not a rune literal (%s)", rel, what, exprString(e))
				return 0, false
			}
			r, _, _, err := strconv.UnquoteChar(bl.Value[1:len(bl.Value)-1], '\'')
			if err != nil {
				fail("%s: %s: bad rune literal %s", rel, what, bl.Value)
				return 0, false
			}
			return r, true
		}
		runeConst := func(rel, name string) {
			e := findValue(rel, name)
			if e == nil {
				return
			}
			if r, ok := runeOf(rel, e, name); ok {
				g.def(name, "N", fmt.Sprintf("%d%%N", r), rel+": const "+name)
			}
		}
		runeTable := func(rel, name string) {
			e := findValue(rel, name)
			if e == nil {
				return
			}
			cl, ok := e.(*ast.CompositeLit)
			if !ok {
				fail("%s: %s is not a composite literal", rel, name)
				return
			}
			var rs []string
			for i, el := range cl.Elts {
				r, ok := runeOf(rel, el, fmt.Sprintf("%s[%d]", name, i))
				if !ok {
					return
				}
				rs = append(rs, strconv.Itoa(int(r)))
			}
			g.def(name, "list N", "["+strings.Join(rs, ";")+"]%N", rel+": var "+name)
		}
		const brel = "pkg/multiterm/termunicode/bars.go"
		runeConst(brel, "nonUnicodeBlock")
		runeConst(brel, "fullBlock")
		runeTable(brel, "barUnicode")
		runeTable(brel, "barAscii")
		const hrel = "pkg/multiterm/termunicode/heat.go"
		henv := strConstEnv(hrel)
		strTable(hrel, "heatmapColors", henv, "heatmapColors")
		strTable(hrel, "heatmapAscii", henv, "heatmapAscii")
		runeConst(hrel, "heatmapNonUnicode")
		const srel = "pkg/multiterm/termunicode/spark.go"
		runeTable(srel, "sparkBlocks")
		runeTable(srel, "sparkAscii")
		gens = append(gens, g)
	})
}
