package main

// C20: escape sequences the in-place terminal writer emits (pkg/multiterm/cursor.go), the two
// runes WriteLineNoWrap treats as start / end of a colour sequence (pkg/multiterm/linetrim.go),
// and the fall-back width (no TTY).

import (
	"go/ast"
	"go/token"
	"strconv"
)

// first argument of the first call of `callee` inside function `fn` of file rel, as a string literal
func c20CallLit(rel, fn, callee string) string {
	fd := findFunc(rel, fn)
	if fd == nil || fd.Body == nil {
		return ""
	}
	res, found := "", false
	ast.Inspect(fd.Body, func(n ast.Node) bool {
		ce, ok := n.(*ast.CallExpr)
		if !ok || found {
			return true
		}
		if id, ok := ce.Fun.(*ast.Ident); ok && id.Name == callee && len(ce.Args) >= 1 {
			if s, ok := strLit(ce.Args[0]); ok {
				res, found = s, true
			}
		}
		return true
	})
	if !found {
		fail("%s: %s: no call %s(\"literal\", …)", rel, fn, callee)
	}
	return res
}

func c20Runes(s string) string {
	out := "["
	for i, r := range []rune(s) {
		if i > 0 {
			out += ";"
		}
		out += strconv.Itoa(int(r))
	}
	return out + "]%N"
}

func init() {
	generators = append(generators, func() {
		const cur = "pkg/multiterm/cursor.go"
		const trim = "pkg/multiterm/linetrim.go"
		g := newGen("GenTerm", "Escape sequences of the in-place terminal writer and the runes of the width trim (C20).")

		// const ESCAPE inside func escape
		esc, ok := "", false
		if fd := findFunc(cur, "escape"); fd != nil && fd.Body != nil {
			ast.Inspect(fd.Body, func(n ast.Node) bool {
				if vs, isVS := n.(*ast.ValueSpec); isVS {
					for i, nm := range vs.Names {
						if nm.Name == "ESCAPE" && i < len(vs.Values) {
							esc, ok = strLit(vs.Values[i])
						}
					}
				}
				return true
			})
		}
		if !ok {
			fail("%s: escape: const ESCAPE not found", cur)
		}
		g.def("EscapePrefix", "list N", c20Runes(esc), cur+": escape, const ESCAPE")
		g.def("HideCursorBody", "list N", c20Runes(c20CallLit(cur, "hideCursor", "escape")), cur+": hideCursor")
		g.def("ShowCursorBody", "list N", c20Runes(c20CallLit(cur, "showCursor", "escape")), cur+": showCursor")
		g.def("EraseEolBody", "list N", c20Runes(c20CallLit(cur, "eraseRemainingLine", "escape")), cur+": eraseRemainingLine")
		g.def("MoveUpFormat", "list N", c20Runes(c20CallLit(cur, "moveUpf", "escape")), cur+": moveUpf (fmt verb %d = decimal)")

		// runes compared in WriteLineNoWrap: runes[i] == <start>, runes[i] != <end>
		start, end := "", ""
		if fd := findFunc(trim, "WriteLineNoWrap"); fd != nil && fd.Body != nil {
			ast.Inspect(fd.Body, func(n ast.Node) bool {
				if be, isBE := n.(*ast.BinaryExpr); isBE {
					if bl, isBL := be.Y.(*ast.BasicLit); isBL && bl.Kind == token.CHAR {
						if s, okc := strLit(bl); okc {
							r := []rune(s)
							if len(r) == 1 && be.Op == token.EQL && start == "" {
								start = strconv.Itoa(int(r[0]))
							}
							if len(r) == 1 && be.Op == token.NEQ && end == "" {
								end = strconv.Itoa(int(r[0]))
							}
						}
					}
				}
				return true
			})
		}
		if start == "" || end == "" {
			fail("%s: WriteLineNoWrap: rune comparisons (== start, != end) not found", trim)
			start, end = "0", "0"
		}
		g.def("TrimSeqStart", "N", start+"%N", trim+": WriteLineNoWrap, rune that opens a colour sequence")
		g.def("TrimSeqEnd", "N", end+"%N", trim+": WriteLineNoWrap, rune that closes a colour sequence")
		g.def("DefaultCols", "Z", coqZ(intConst(trim, "defaultCols")), trim+": width when stdout is not a terminal")
		gens = append(gens, g)
	})
}
