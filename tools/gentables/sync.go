package main

// Synchronisation-discipline table (C05): for each shared field of the anchored structs and
// package-level variables, every access site with its protection:
//   atomic      — the address is passed to a sync/atomic function
//   lock:m      — lexically between m.Lock() and the matching m.Unlock() / defer m.Unlock()
//   rlock:m     — the same for m.RLock()
//   init        — inside the constructor (function containing the composite literal of the struct,
//                 through the literal or the variable it is assigned to) or inside init()
//   plain       — none of the above
// Rules (stated here because they are part of the trusted base):
//   * lock state is tracked per function, statement by statement; nested blocks inherit a copy;
//     function literals start with no lock held (they may run later, on another goroutine);
//   * a call to an unexported package-level function is analysed inline at the call site, with
//     the caller's lock state (needed for logger.resetLogger);
//   * fields whose type is a channel, sync.Mutex, sync.RWMutex or sync.WaitGroup are the
//     synchronisation primitives themselves and are not listed.

import (
	"fmt"
	"go/ast"
	"go/token"
	"os"
	"path/filepath"
	"sort"
	"strings"
)

type syncSite struct {
	loc   string
	where string
	write bool
	prot  string
}

type syncTarget struct {
	dir     string   // package directory
	typ     string   // struct name, or "" for package-level variables
	embeds  []string // other struct types that embed typ (their methods access the promoted fields)
	globals []string // package-level variables (when typ == "")
	mutexes []string // package-level mutex variables (when typ == "")
}

type syncAnalyzer struct {
	tgt     syncTarget
	files   map[string]*ast.File
	funcs   map[string]*ast.FuncDecl // package-level functions by name
	fields  map[string]bool          // tracked fields
	mutexes map[string]bool          // mutex fields
	sites   []syncSite
	depth   int
	methods map[string]*ast.FuncDecl // methods of the target type (and its embedded types) by name
	reentry []string                 // sites where a mutex is acquired while the same goroutine already holds it
	blocked []string                 // sites where a channel operation that can block is made while a mutex is held
	nonblk  int                      // > 0 inside the comm clauses of a select that has a default branch
}

// heldMutexes lists the real mutexes of a lock state (the constructor marker is not one)
func heldMutexes(st lockState) []string {
	var ks []string
	for k := range st.held {
		if k != initKey {
			ks = append(ks, k+" ("+st.held[k]+")")
		}
	}
	sort.Strings(ks)
	return ks
}

func (a *syncAnalyzer) noteBlocking(pos token.Pos, fn, what string, st lockState) {
	if ks := heldMutexes(st); len(ks) > 0 && a.nonblk == 0 {
		p := fset.Position(pos)
		a.blocked = append(a.blocked, fmt.Sprintf("%s:%d %s: %s while holding %s", filepath.Base(p.Filename), p.Line, fn, what, strings.Join(ks, ", ")))
	}
}

// blocks reports whether a function's body contains a channel send or receive outside a select with a
// default branch, directly or through calls within the package (function literals excluded)
func (a *syncAnalyzer) blocks(fd *ast.FuncDecl, depth int) bool {
	if fd == nil || fd.Body == nil || depth > 3 {
		return false
	}
	recv := map[string]bool{}
	if fd.Recv != nil && len(fd.Recv.List) == 1 && len(fd.Recv.List[0].Names) == 1 {
		recv[fd.Recv.List[0].Names[0].Name] = true
	}
	found := false
	var visit func(n ast.Node) bool
	visit = func(n ast.Node) bool {
		switch x := n.(type) {
		case *ast.FuncLit:
			return false
		case *ast.SelectStmt:
			hasDefault := false
			for _, c := range x.Body.List {
				if cc, ok := c.(*ast.CommClause); ok && cc.Comm == nil {
					hasDefault = true
				}
			}
			if hasDefault {
				for _, c := range x.Body.List { // only the bodies can block
					for _, b := range c.(*ast.CommClause).Body {
						ast.Inspect(b, visit)
					}
				}
				return false
			}
		case *ast.SendStmt:
			found = true
		case *ast.UnaryExpr:
			if x.Op == token.ARROW {
				found = true
			}
		case *ast.CallExpr:
			if callee := a.calleeOf(x, recv); callee != nil && callee != fd && a.blocks(callee, depth+1) {
				found = true
			}
		}
		return !found
	}
	ast.Inspect(fd.Body, visit)
	return found
}

// acquires lists the mutexes a function's body locks (Lock or RLock), directly or through calls to
// functions / methods of the same package (function literals excluded: they may run elsewhere)
func (a *syncAnalyzer) acquires(fd *ast.FuncDecl, depth int) map[string]bool {
	out := map[string]bool{}
	if fd == nil || fd.Body == nil || depth > 3 {
		return out
	}
	recv := map[string]bool{}
	if fd.Recv != nil && len(fd.Recv.List) == 1 && len(fd.Recv.List[0].Names) == 1 {
		recv[fd.Recv.List[0].Names[0].Name] = true
	}
	ast.Inspect(fd.Body, func(n ast.Node) bool {
		switch x := n.(type) {
		case *ast.FuncLit:
			return false
		case *ast.CallExpr:
			if m, op, ok := a.lockOp(x, recv); ok && (op == "Lock" || op == "RLock") {
				out[m] = true
			}
			if callee := a.calleeOf(x, recv); callee != nil && callee != fd {
				for m := range a.acquires(callee, depth+1) {
					out[m] = true
				}
			}
		}
		return true
	})
	return out
}

// calleeOf resolves f(..) to a package-level function and r.m(..) (r the receiver) to a method of the target type
func (a *syncAnalyzer) calleeOf(call *ast.CallExpr, recv map[string]bool) *ast.FuncDecl {
	switch f := call.Fun.(type) {
	case *ast.Ident:
		if a.tgt.typ == "" {
			return a.funcs[f.Name]
		}
	case *ast.SelectorExpr:
		if id, ok := f.X.(*ast.Ident); ok && recv[id.Name] {
			return a.methods[f.Sel.Name]
		}
	}
	return nil
}

func (a *syncAnalyzer) noteReentry(pos token.Pos, fn, m, how string, st lockState) {
	if prev, held := st.held[m]; held {
		p := fset.Position(pos)
		a.reentry = append(a.reentry, fmt.Sprintf("%s:%d %s: %s %s while this goroutine holds it (%s)", filepath.Base(p.Filename), p.Line, fn, how, m, prev))
	}
}

func parseDir(rel string) map[string]*ast.File {
	out := map[string]*ast.File{}
	ents, err := os.ReadDir(filepath.Join(repo, rel))
	if err != nil {
		fail("cannot read %s: %v", rel, err)
		return out
	}
	for _, e := range ents {
		n := e.Name()
		if strings.HasSuffix(n, ".go") && !strings.HasSuffix(n, "_test.go") && !strings.HasPrefix(n, "verif_") {
			if f := parse(filepath.Join(rel, n)); f != nil {
				out[n] = f
			}
		}
	}
	return out
}

func typeString(e ast.Expr) string {
	switch x := e.(type) {
	case *ast.Ident:
		return x.Name
	case *ast.SelectorExpr:
		return typeString(x.X) + "." + x.Sel.Name
	case *ast.StarExpr:
		return "*" + typeString(x.X)
	case *ast.ChanType:
		return "chan"
	case *ast.ArrayType:
		return "[]" + typeString(x.Elt)
	case *ast.IndexExpr:
		return typeString(x.X)
	case *ast.MapType:
		return "map"
	case *ast.FuncType:
		return "func"
	}
	return "?"
}

func isSyncPrim(t string) bool {
	return t == "chan" || t == "sync.Mutex" || t == "sync.RWMutex" || t == "sync.WaitGroup"
}

func newSyncAnalyzer(t syncTarget) *syncAnalyzer {
	a := &syncAnalyzer{tgt: t, files: parseDir(t.dir), funcs: map[string]*ast.FuncDecl{}, fields: map[string]bool{}, mutexes: map[string]bool{}, methods: map[string]*ast.FuncDecl{}}
	for _, f := range a.files {
		for _, d := range f.Decls {
			switch x := d.(type) {
			case *ast.FuncDecl:
				if x.Recv == nil {
					a.funcs[x.Name.Name] = x
				} else if len(x.Recv.List) == 1 && t.typ != "" {
					rt := strings.TrimPrefix(typeString(x.Recv.List[0].Type), "*")
					ok := rt == t.typ
					for _, e := range t.embeds {
						ok = ok || rt == e
					}
					if ok {
						a.methods[x.Name.Name] = x
					}
				}
			case *ast.GenDecl:
				if x.Tok == token.TYPE && t.typ != "" {
					for _, s := range x.Specs {
						ts := s.(*ast.TypeSpec)
						st, ok := ts.Type.(*ast.StructType)
						if !ok || ts.Name.Name != t.typ {
							continue
						}
						for _, fl := range st.Fields.List {
							ty := typeString(fl.Type)
							for _, n := range fl.Names {
								if ty == "sync.Mutex" || ty == "sync.RWMutex" {
									a.mutexes[n.Name] = true
								} else if !isSyncPrim(ty) {
									a.fields[n.Name] = true
								}
							}
						}
					}
				}
			}
		}
	}
	if t.typ == "" {
		for _, g := range t.globals {
			a.fields[g] = true
		}
		for _, m := range t.mutexes {
			a.mutexes[m] = true
		}
	} else if len(a.fields) == 0 {
		fail("%s: struct %s not found or has no tracked fields", t.dir, t.typ)
	}
	return a
}

func (a *syncAnalyzer) locName(f string) string {
	if a.tgt.typ == "" {
		return filepath.Base(a.tgt.dir) + "." + f
	}
	return a.tgt.typ + "." + f
}

// target returns the tracked field an expression denotes when accessed through one of the
// variables in recv (receiver / constructor variable), or a tracked global.
func (a *syncAnalyzer) target(e ast.Expr, recv map[string]bool) (string, bool) {
	switch x := e.(type) {
	case *ast.SelectorExpr:
		if id, ok := x.X.(*ast.Ident); ok && recv[id.Name] && a.tgt.typ != "" {
			if a.fields[x.Sel.Name] {
				return x.Sel.Name, true
			}
		}
	case *ast.Ident:
		if a.tgt.typ == "" && a.fields[x.Name] && x.Obj != nil && x.Obj.Kind == ast.Var {
			if _, isField := x.Obj.Decl.(*ast.Field); !isField {
				return x.Name, true
			}
		}
	}
	return "", false
}

func (a *syncAnalyzer) mutexOf(e ast.Expr, recv map[string]bool) (string, bool) {
	switch x := e.(type) {
	case *ast.SelectorExpr:
		if id, ok := x.X.(*ast.Ident); ok && recv[id.Name] && a.mutexes[x.Sel.Name] {
			return a.locName(x.Sel.Name), true
		}
	case *ast.Ident:
		if a.tgt.typ == "" && a.mutexes[x.Name] {
			return a.locName(x.Name), true
		}
	}
	return "", false
}

const initKey = "\x00init"

type lockState struct {
	held map[string]string // mutex -> "lock" | "rlock"; initKey present = constructor / init() context
}

func (s lockState) copy() lockState {
	m := map[string]string{}
	for k, v := range s.held {
		m[k] = v
	}
	return lockState{held: m}
}

func (s lockState) isInit() bool { _, ok := s.held[initKey]; return ok }

func (s lockState) prot() string {
	if s.isInit() {
		return "init"
	}
	var ks []string
	for k := range s.held {
		ks = append(ks, k)
	}
	sort.Strings(ks)
	if len(ks) > 0 {
		return s.held[ks[0]] + ":" + ks[0]
	}
	return "plain"
}

func (a *syncAnalyzer) record(field string, pos token.Pos, fn string, write bool, prot string) {
	p := fset.Position(pos)
	a.sites = append(a.sites, syncSite{loc: a.locName(field), where: fmt.Sprintf("%s:%d %s", filepath.Base(p.Filename), p.Line, fn), write: write, prot: prot})
}

// scanExpr records the accesses inside an expression. writes lists expressions that are assigned.
func (a *syncAnalyzer) scanExpr(e ast.Node, recv map[string]bool, st lockState, fn string, writes map[ast.Expr]bool) {
	if e == nil {
		return
	}
	atomicArgs := map[ast.Expr]bool{}
	ast.Inspect(e, func(n ast.Node) bool {
		switch x := n.(type) {
		case *ast.FuncLit:
			inner := lockState{held: map[string]string{}}
			if st.isInit() {
				inner.held[initKey] = "init"
			}
			a.walkBlock(x.Body.List, recv, inner, fn+"/func")
			return false
		case *ast.CallExpr:
			if sel, ok := x.Fun.(*ast.SelectorExpr); ok {
				if id, ok := sel.X.(*ast.Ident); ok && id.Name == "atomic" {
					for _, arg := range x.Args {
						if u, ok := arg.(*ast.UnaryExpr); ok && u.Op == token.AND {
							if f, ok := a.target(u.X, recv); ok {
								a.record(f, u.Pos(), fn, !strings.HasPrefix(sel.Sel.Name, "Load"), "atomic")
								atomicArgs[u.X] = true
							}
						}
					}
				}
			}
			if callee := a.calleeOf(x, recv); callee != nil && len(st.held) > 0 {
				for m := range a.acquires(callee, 0) {
					a.noteReentry(x.Pos(), fn, m, "call of "+callee.Name.Name+", which locks", st)
				}
				if a.blocks(callee, 0) {
					a.noteBlocking(x.Pos(), fn, "call of "+callee.Name.Name+", which sends or receives on a channel,", st)
				}
			}
			if id, ok := x.Fun.(*ast.Ident); ok && a.depth < 3 {
				if fd, ok := a.funcs[id.Name]; ok && !ast.IsExported(id.Name) && fd.Body != nil && a.tgt.typ == "" {
					a.depth++
					a.walkBlock(fd.Body.List, recv, st.copy(), fn+">"+id.Name)
					a.depth--
				}
			}
		case *ast.UnaryExpr:
			if x.Op == token.ARROW {
				a.noteBlocking(x.Pos(), fn, "channel receive", st)
			}
		case *ast.CompositeLit:
			if a.tgt.typ != "" && strings.TrimPrefix(typeString(x.Type), "*") == a.tgt.typ {
				for _, el := range x.Elts {
					if kv, ok := el.(*ast.KeyValueExpr); ok {
						if id, ok := kv.Key.(*ast.Ident); ok && a.fields[id.Name] {
							a.record(id.Name, kv.Pos(), fn, true, "init")
						}
						a.scanExpr(kv.Value, recv, st, fn, nil)
					}
				}
				return false
			}
		case ast.Expr:
			if atomicArgs[x] {
				return false
			}
			if f, ok := a.target(x, recv); ok {
				a.record(f, x.Pos(), fn, writes[x], st.prot())
				return false
			}
		}
		return true
	})
}

func baseOf(e ast.Expr) ast.Expr {
	for {
		switch x := e.(type) {
		case *ast.IndexExpr:
			e = x.X
		case *ast.SliceExpr:
			e = x.X
		case *ast.ParenExpr:
			e = x.X
		case *ast.StarExpr:
			e = x.X
		default:
			return e
		}
	}
}

func (a *syncAnalyzer) walkBlock(stmts []ast.Stmt, recv map[string]bool, st lockState, fn string) {
	for _, s := range stmts {
		a.walkStmt(s, recv, st, fn)
	}
}

func (a *syncAnalyzer) lockOp(call *ast.CallExpr, recv map[string]bool) (mutex, op string, ok bool) {
	sel, isSel := call.Fun.(*ast.SelectorExpr)
	if !isSel {
		return
	}
	switch sel.Sel.Name {
	case "Lock", "Unlock", "RLock", "RUnlock":
		if m, isM := a.mutexOf(sel.X, recv); isM {
			return m, sel.Sel.Name, true
		}
	}
	return
}

func (a *syncAnalyzer) walkStmt(s ast.Stmt, recv map[string]bool, st lockState, fn string) {
	switch x := s.(type) {
	case nil:
	case *ast.ExprStmt:
		if call, ok := x.X.(*ast.CallExpr); ok {
			if m, op, ok := a.lockOp(call, recv); ok {
				switch op {
				case "Lock":
					a.noteReentry(call.Pos(), fn, m, "Lock of", st)
					st.held[m] = "lock"
				case "RLock":
					a.noteReentry(call.Pos(), fn, m, "RLock of", st)
					st.held[m] = "rlock"
				default:
					delete(st.held, m)
				}
				return
			}
		}
		a.scanExpr(x.X, recv, st, fn, nil)
	case *ast.DeferStmt:
		if _, _, ok := a.lockOp(x.Call, recv); ok {
			return // released at function exit: held for the rest of the body
		}
		a.scanExpr(x.Call, recv, st, fn, nil)
	case *ast.GoStmt:
		a.scanExpr(x.Call, recv, lockState{held: map[string]string{}}, fn+"/go", nil)
	case *ast.AssignStmt:
		writes := map[ast.Expr]bool{}
		for _, l := range x.Lhs {
			writes[baseOf(l)] = true
		}
		// a variable assigned from the struct's composite literal (or its address) is the constructor variable
		for i, r := range x.Rhs {
			if a.tgt.typ != "" && i < len(x.Lhs) {
				rr := r
				if u, ok := rr.(*ast.UnaryExpr); ok && u.Op == token.AND {
					rr = u.X
				}
				if cl, ok := rr.(*ast.CompositeLit); ok && strings.TrimPrefix(typeString(cl.Type), "*") == a.tgt.typ {
					if id, ok := x.Lhs[i].(*ast.Ident); ok {
						recv[id.Name] = true
						st.held[initKey] = "init"
					}
				}
			}
			a.scanExpr(r, recv, st, fn, nil)
		}
		for _, l := range x.Lhs {
			a.scanExpr(l, recv, st, fn, writes)
			if x.Tok != token.ASSIGN && x.Tok != token.DEFINE { // op-assignment also reads
				a.scanExpr(l, recv, st, fn, nil)
			}
		}
	case *ast.IncDecStmt:
		a.scanExpr(x.X, recv, st, fn, map[ast.Expr]bool{baseOf(x.X): true})
	case *ast.BlockStmt:
		a.walkBlock(x.List, recv, st.copy(), fn)
	case *ast.IfStmt:
		a.walkStmt(x.Init, recv, st, fn)
		a.scanExpr(x.Cond, recv, st, fn, nil)
		a.walkBlock(x.Body.List, recv, st.copy(), fn)
		if x.Else != nil {
			a.walkStmt(x.Else, recv, st.copy(), fn)
		}
	case *ast.ForStmt:
		a.walkStmt(x.Init, recv, st, fn)
		a.scanExpr(x.Cond, recv, st, fn, nil)
		a.walkStmt(x.Post, recv, st, fn)
		a.walkBlock(x.Body.List, recv, st.copy(), fn)
	case *ast.RangeStmt:
		a.scanExpr(x.X, recv, st, fn, nil)
		a.walkBlock(x.Body.List, recv, st.copy(), fn)
	case *ast.SwitchStmt:
		a.walkStmt(x.Init, recv, st, fn)
		a.scanExpr(x.Tag, recv, st, fn, nil)
		a.walkBlock(x.Body.List, recv, st.copy(), fn)
	case *ast.TypeSwitchStmt:
		a.walkBlock(x.Body.List, recv, st.copy(), fn)
	case *ast.SelectStmt:
		hasDefault := false
		for _, c := range x.Body.List {
			if cc, ok := c.(*ast.CommClause); ok && cc.Comm == nil {
				hasDefault = true
			}
		}
		if hasDefault {
			a.nonblk++
		}
		for _, c := range x.Body.List {
			if cc, ok := c.(*ast.CommClause); ok {
				a.walkStmt(cc.Comm, recv, st, fn)
			}
		}
		if hasDefault {
			a.nonblk--
		}
		for _, c := range x.Body.List {
			if cc, ok := c.(*ast.CommClause); ok {
				a.walkBlock(cc.Body, recv, st.copy(), fn)
			}
		}
	case *ast.CaseClause:
		for _, e := range x.List {
			a.scanExpr(e, recv, st, fn, nil)
		}
		a.walkBlock(x.Body, recv, st.copy(), fn)
	case *ast.CommClause:
		a.walkStmt(x.Comm, recv, st, fn)
		a.walkBlock(x.Body, recv, st.copy(), fn)
	case *ast.ReturnStmt:
		for _, r := range x.Results {
			a.scanExpr(r, recv, st, fn, nil)
		}
	case *ast.SendStmt:
		a.noteBlocking(x.Pos(), fn, "channel send", st)
		a.scanExpr(x.Chan, recv, st, fn, nil)
		a.scanExpr(x.Value, recv, st, fn, nil)
	case *ast.LabeledStmt:
		a.walkStmt(x.Stmt, recv, st, fn)
	case *ast.DeclStmt:
		a.scanExpr(x, recv, st, fn, nil)
	default:
	}
}

func (a *syncAnalyzer) run() {
	var names []string
	for n := range a.files {
		names = append(names, n)
	}
	sort.Strings(names)
	for _, n := range names {
		for _, d := range a.files[n].Decls {
			fd, ok := d.(*ast.FuncDecl)
			if !ok || fd.Body == nil {
				continue
			}
			recv := map[string]bool{}
			st := lockState{held: map[string]string{}}
			if fd.Recv != nil && len(fd.Recv.List) == 1 && a.tgt.typ != "" {
				rt := strings.TrimPrefix(typeString(fd.Recv.List[0].Type), "*")
				ok := rt == a.tgt.typ
				for _, e := range a.tgt.embeds {
					ok = ok || rt == e
				}
				if ok && len(fd.Recv.List[0].Names) == 1 {
					recv[fd.Recv.List[0].Names[0].Name] = true
				}
			}
			if fd.Recv == nil && a.tgt.typ == "" {
				if fd.Name.Name == "init" {
					st.held[initKey] = "init"
				} else if !ast.IsExported(fd.Name.Name) {
					continue // unexported package-level helpers are analysed inline at their call sites
				}
			}
			a.walkBlock(fd.Body.List, recv, st, fd.Name.Name)
		}
	}
}

func init() {
	generators = append(generators, func() {
		targets := []syncTarget{
			{dir: "pkg/extractor/batchers", typ: "Batcher"},
			{dir: "pkg/extractor", typ: "Extractor", embeds: []string{"extractorInstance"}},
			{dir: "pkg/slicepool", typ: "ObjectPool"},
			{dir: "pkg/logger", globals: []string{"logger", "logBuffer"}, mutexes: []string{"mux"}},
		}
		var sites []syncSite
		var reentry, blocked []string
		for _, t := range targets {
			a := newSyncAnalyzer(t)
			a.run()
			sites = append(sites, a.sites...)
			reentry = append(reentry, a.reentry...)
			blocked = append(blocked, a.blocked...)
		}
		sort.Strings(reentry)
		sort.Strings(blocked)
		locIdx, mIdx := map[string]int{}, map[string]int{}
		var locs, muts []string
		for _, s := range sites {
			if _, ok := locIdx[s.loc]; !ok {
				locIdx[s.loc] = len(locs)
				locs = append(locs, s.loc)
			}
			if i := strings.Index(s.prot, ":"); i >= 0 {
				m := s.prot[i+1:]
				if _, ok := mIdx[m]; !ok {
					mIdx[m] = len(muts)
					muts = append(muts, m)
				}
			}
		}
		if len(sites) < 20 {
			fail("sync table: only %d access sites found (source layout changed?)", len(sites))
		}
		g := newGen("GenSync", "Access sites of shared state with their protection (see tools/gentables/sync.go for the rules).")
		g.sb.WriteString("From RareV Require Import Model.Sync.\n\n")
		q := func(xs []string) string {
			ps := make([]string, len(xs))
			for i, x := range xs {
				ps[i] = fmt.Sprintf("%q%%string", x)
			}
			return "[" + strings.Join(ps, "; ") + "]"
		}
		g.def("sync_loc_names", "list string", q(locs), "location number -> name")
		g.def("sync_mutex_names", "list string", q(muts), "mutex number -> name")
		g.def("sync_nlocs", "nat", fmt.Sprint(len(locs)), "number of locations")
		var rows []string
		for _, s := range sites {
			p := "PPlain"
			switch {
			case s.prot == "atomic":
				p = "PAtomic"
			case s.prot == "init":
				p = "PInit"
			case strings.HasPrefix(s.prot, "lock:"):
				p = fmt.Sprintf("PLock %d", mIdx[s.prot[5:]])
			case strings.HasPrefix(s.prot, "rlock:"):
				p = fmt.Sprintf("PRLock %d", mIdx[s.prot[6:]])
			}
			rows = append(rows, fmt.Sprintf("  {| s_loc := %d; s_write := %v; s_prot := %s |} (* %s  %s  %s *)", locIdx[s.loc], s.write, p, s.loc, s.where, s.prot))
		}
		g.sb.WriteString("Definition sync_table : list site := [\n" + strings.Join(rows, ";\n") + "\n].\n")
		g.def("sync_blocking_under_lock", "list string", q(blocked), "channel sends / receives that can block (not in a select with a default branch), directly or through a call within the package, made while a mutex is held")
		g.def("sync_reentrant", "list string", q(reentry), "places where a mutex is acquired (directly or through a call within the package) while the same goroutine holds it; sync.Mutex / RWMutex are not re-entrant")
		gens = append(gens, g)
	})
}

// Publication order of the extractor's counters (C05, C01): the pipeline model increments
// readLines / matchedLines / ignoredLines while the line is processed, i.e. BEFORE the worker sends
// the batch of matches on readChan. Extracted here: which functions contain atomic.Add* calls on
// those counters, and whether asyncWorker calls processLineSync before its send on readChan and
// performs no counter update itself.
func init() {
	generators = append(generators, func() {
		const rel = "pkg/extractor/extractor.go"
		f := parse(rel)
		if f == nil {
			return
		}
		counters := map[string]bool{"readLines": true, "matchedLines": true, "ignoredLines": true}
		addedIn := map[string]bool{}
		var workerSend, workerCall token.Pos
		workerAdds := false
		for _, d := range f.Decls {
			fd, ok := d.(*ast.FuncDecl)
			if !ok || fd.Body == nil {
				continue
			}
			ast.Inspect(fd.Body, func(n ast.Node) bool {
				switch x := n.(type) {
				case *ast.CallExpr:
					if sel, ok := x.Fun.(*ast.SelectorExpr); ok {
						if id, ok := sel.X.(*ast.Ident); ok && id.Name == "atomic" && !strings.HasPrefix(sel.Sel.Name, "Load") {
							for _, a := range x.Args {
								if u, ok := a.(*ast.UnaryExpr); ok {
									if s2, ok := u.X.(*ast.SelectorExpr); ok && counters[s2.Sel.Name] {
										addedIn[fd.Name.Name] = true
										if fd.Name.Name == "asyncWorker" {
											workerAdds = true
										}
									}
								}
							}
						}
						if fd.Name.Name == "asyncWorker" && sel.Sel.Name == "processLineSync" && workerCall == token.NoPos {
							workerCall = x.Pos()
						}
					}
				case *ast.SendStmt:
					if fd.Name.Name == "asyncWorker" {
						if s2, ok := x.Chan.(*ast.SelectorExpr); ok && s2.Sel.Name == "readChan" {
							workerSend = x.Pos()
						}
					}
				case *ast.IncDecStmt:
					if s2, ok := x.X.(*ast.SelectorExpr); ok && counters[s2.Sel.Name] {
						addedIn[fd.Name.Name+"(non-atomic)"] = true
					}
				case *ast.AssignStmt:
					for _, l := range x.Lhs {
						if s2, ok := l.(*ast.SelectorExpr); ok && counters[s2.Sel.Name] {
							addedIn[fd.Name.Name+"(non-atomic)"] = true
						}
					}
				}
				return true
			})
		}
		var fns []string
		for k := range addedIn {
			fns = append(fns, k)
		}
		sort.Strings(fns)
		if workerSend == token.NoPos || workerCall == token.NoPos {
			fail("%s: asyncWorker no longer has the shape `processLineSync(...) ... s.readChan <- batch`", rel)
		}
		g := newGen("GenOrder", "Where the extractor's counters are updated relative to the send on readChan.")
		q := make([]string, len(fns))
		for i, x := range fns {
			q[i] = fmt.Sprintf("%q%%string", x)
		}
		g.def("counter_update_functions", "list string", "["+strings.Join(q, "; ")+"]", rel+": functions that update readLines / matchedLines / ignoredLines")
		g.def("worker_processes_before_send", "bool", fmt.Sprint(workerCall < workerSend && !workerAdds), rel+": asyncWorker calls processLineSync before `s.readChan <- matchBatch` and updates no counter itself")
		gens = append(gens, g)
	})
}
