package main

// C08: inventories the no-crash theorems are stated over.
//   coq/Gen/GenFuncs.v       keys of stdlib.StandardFunctions (pkg/expressions/stdlib/funcs.go) in source
//                            order, each with the Go identifier that builds it (kfRepeat,
//                            arithmaticHelperiEx, ...); the drawing tables barUnicode / colorMap / Reset;
//                            the error markers C08 talks about.
//   coq/Gen/GenPanicSites.v  every syntactic site of the listed files at which Go can raise a run-time
//                            panic without calling into a library: index, slice, integer / and %, shifts,
//                            strings.Repeat, make with a computed length, type assertion, explicit panic( --
//                            as (file, function, kind, expression text).  Function literals are attributed
//                            to the enclosing declaration (function, method Recv.Name, or "var Name").
// Purely syntactic (no type information): map look-ups and generic instantiations appear as "index",
// float divisions as "quo"; Props/C08.v classifies them.  Line numbers are deliberately absent: moving
// code does not change the inventory, changing an expression does.

import (
	"bytes"
	"fmt"
	"go/ast"
	"go/printer"
	"go/token"
	"os"
	"path/filepath"
	"sort"
	"strconv"
	"strings"
)

func c08CoqString(s string) string {
	return "\"" + strings.ReplaceAll(s, "\"", "\"\"") + "\""
}

func c08Render(n ast.Node) string {
	var buf bytes.Buffer
	printer.Fprint(&buf, token.NewFileSet(), n)
	s := strings.Join(strings.Fields(buf.String()), " ")
	if len(s) > 120 {
		s = s[:120] + "..."
	}
	// keep the Coq string ASCII
	var sb strings.Builder
	for _, r := range s {
		if r < 32 || r > 126 {
			fmt.Fprintf(&sb, "\\u%04x", r)
		} else {
			sb.WriteRune(r)
		}
	}
	return sb.String()
}

type c08Site struct{ file, fn, kind, expr string }

// the head identifier of a registry value: KeyBuilderFunction(kfX) -> kfX; helper(func..) -> helper; kfX -> kfX
func c08Head(e ast.Expr) string {
	switch x := e.(type) {
	case *ast.Ident:
		return x.Name
	case *ast.CallExpr:
		if id, ok := x.Fun.(*ast.Ident); ok && id.Name == "KeyBuilderFunction" && len(x.Args) == 1 {
			return c08Head(x.Args[0])
		}
		return c08Head(x.Fun)
	case *ast.SelectorExpr:
		return exprString(x)
	case *ast.ParenExpr:
		return c08Head(x.X)
	}
	return "?"
}

func c08Sites(rel string) []c08Site {
	f := parse(rel)
	if f == nil {
		return nil
	}
	var out []c08Site
	add := func(fn, kind string, n ast.Node) {
		out = append(out, c08Site{rel, fn, kind, c08Render(n)})
	}
	var walk func(fn string, n ast.Node)
	walk = func(fn string, root ast.Node) {
		ast.Inspect(root, func(n ast.Node) bool {
			switch x := n.(type) {
			case *ast.ArrayType, *ast.MapType, *ast.FuncType, *ast.ChanType, *ast.StructType, *ast.InterfaceType:
				if ft, ok := x.(*ast.FuncType); ok && ft != nil {
					return false
				}
				return false // type expressions carry no run-time sites
			case *ast.IndexExpr:
				add(fn, "index", x)
			case *ast.IndexListExpr:
				add(fn, "index", x)
			case *ast.SliceExpr:
				add(fn, "slice", x)
			case *ast.BinaryExpr:
				switch x.Op {
				case token.QUO:
					add(fn, "quo", x)
				case token.REM:
					add(fn, "rem", x)
				case token.SHL, token.SHR:
					add(fn, "shift", x)
				}
			case *ast.AssignStmt:
				switch x.Tok {
				case token.QUO_ASSIGN:
					add(fn, "quo", x)
				case token.REM_ASSIGN:
					add(fn, "rem", x)
				case token.SHL_ASSIGN, token.SHR_ASSIGN:
					add(fn, "shift", x)
				}
			case *ast.TypeAssertExpr:
				if x.Type != nil {
					add(fn, "typeassert", x)
				}
			case *ast.CallExpr:
				switch c08Head(x.Fun) {
				case "panic":
					add(fn, "panic", x)
				case "strings.Repeat":
					add(fn, "repeat", x)
				case "make":
					if len(x.Args) >= 2 {
						if _, lit := x.Args[1].(*ast.BasicLit); !lit {
							add(fn, "make", x)
						}
					}
				}
			}
			return true
		})
	}
	for _, d := range f.Decls {
		switch x := d.(type) {
		case *ast.FuncDecl:
			name := x.Name.Name
			if x.Recv != nil && len(x.Recv.List) == 1 {
				t := x.Recv.List[0].Type
				if st, ok := t.(*ast.StarExpr); ok {
					t = st.X
				}
				if ie, ok := t.(*ast.IndexExpr); ok {
					t = ie.X
				}
				name = exprString(t) + "." + name
			}
			if x.Body != nil {
				walk(name, x.Body)
			}
		case *ast.GenDecl:
			if x.Tok != token.VAR && x.Tok != token.CONST {
				continue
			}
			for _, s := range x.Specs {
				vs, ok := s.(*ast.ValueSpec)
				if !ok {
					continue
				}
				for i, v := range vs.Values {
					nm := "_"
					if i < len(vs.Names) {
						nm = vs.Names[i].Name
					}
					walk("var "+nm, v)
				}
			}
		}
	}
	return out
}

// non-test Go files of a directory (not recursive), relative to the repo root, sorted
func c08Files(dir string) []string {
	ents, err := os.ReadDir(filepath.Join(repo, dir))
	if err != nil {
		fail("cannot list %s: %v", dir, err)
		return nil
	}
	var out []string
	for _, e := range ents {
		n := e.Name()
		if e.IsDir() || !strings.HasSuffix(n, ".go") || strings.HasSuffix(n, "_test.go") || strings.HasPrefix(n, "verif_") {
			continue
		}
		out = append(out, filepath.ToSlash(filepath.Join(dir, n)))
	}
	sort.Strings(out)
	return out
}

// an integer constant declared inside a function body
func c08LocalConst(rel, fn, name string) string {
	fd := findFunc(rel, fn)
	if fd == nil || fd.Body == nil {
		return "0"
	}
	var found ast.Expr
	ast.Inspect(fd.Body, func(n ast.Node) bool {
		if gd, ok := n.(*ast.GenDecl); ok && gd.Tok == token.CONST {
			for _, sp := range gd.Specs {
				vs := sp.(*ast.ValueSpec)
				for i, id := range vs.Names {
					if id.Name == name && i < len(vs.Values) {
						found = vs.Values[i]
					}
				}
			}
		}
		return true
	})
	if found == nil {
		fail("%s: no constant %s in %s", rel, name, fn)
		return "0"
	}
	v, ok := evalInt(found, nil)
	if !ok {
		fail("%s: %s in %s is not a constant integer expression", rel, name, fn)
		return "0"
	}
	return v.ExactString()
}

func c08RuneArray(rel, name string) (string, int, bool) {
	e := findValue(rel, name)
	if e == nil {
		return "", 0, false
	}
	cl, ok := e.(*ast.CompositeLit)
	if !ok {
		fail("%s: %s is not a composite literal", rel, name)
		return "", 0, false
	}
	var parts []string
	for _, el := range cl.Elts {
		bl, ok := el.(*ast.BasicLit)
		if !ok || bl.Kind != token.CHAR {
			fail("%s: %s has a non-character element", rel, name)
			return "", 0, false
		}
		r, _, _, err := strconv.UnquoteChar(bl.Value[1:len(bl.Value)-1], '\'')
		if err != nil {
			fail("%s: %s: bad character literal %s", rel, name, bl.Value)
			return "", 0, false
		}
		parts = append(parts, coqBytes(string(r))) // UTF-8 of string(rune); U+0000 -> one NUL byte
	}
	return "[" + strings.Join(parts, "; ") + "]", len(parts), true
}

func init() {
	generators = append(generators, func() {
		// ---------------- GenFuncs ----------------
		g := newGen("GenFuncs", "C08: the registry of expression helpers, the drawing tables, the error markers.")
		const funcsGo = "pkg/expressions/stdlib/funcs.go"
		if e := findValue(funcsGo, "StandardFunctions"); e != nil {
			cl, ok := e.(*ast.CompositeLit)
			if !ok {
				fail("%s: StandardFunctions is not a composite literal", funcsGo)
			} else {
				var names, impls []string
				seen := map[string]bool{}
				for _, el := range cl.Elts {
					kv, ok := el.(*ast.KeyValueExpr)
					if !ok {
						fail("%s: StandardFunctions has a non key:value element", funcsGo)
						continue
					}
					k, ok := strLit(kv.Key)
					if !ok {
						fail("%s: StandardFunctions has a non-literal key", funcsGo)
						continue
					}
					if seen[k] {
						fail("%s: StandardFunctions has the key %q twice", funcsGo, k)
					}
					seen[k] = true
					names = append(names, c08CoqString(k))
					impls = append(impls, "("+c08CoqString(k)+", "+c08CoqString(c08Head(kv.Value))+")")
				}
				g.def("StandardFunctions", "list string", "["+strings.Join(names, "; ")+"]%string",
					funcsGo+": keys of StandardFunctions, source order")
				g.def("StandardFunctionImpl", "list (string * string)", "["+strings.Join(impls, ";\n  ")+"]%string",
					funcsGo+": key -> identifier of the Go function that builds the helper")
			}
		}
		const errGo = "pkg/expressions/stdlib/errors.go"
		for _, n := range []string{"ErrorNum", "ErrorParsing", "ErrorArgCount", "ErrorConst", "ErrorEnum", "ErrorArgName", "ErrorEmpty", "ErrorFile", "ErrorValue"} {
			g.def("M_"+n, "list N", coqBytes(strConst(errGo, n)), errGo+": "+n)
		}
		const barsGo = "pkg/multiterm/termunicode/bars.go"
		if tbl, n, ok := c08RuneArray(barsGo, "barUnicode"); ok {
			g.def("barUnicode", "list (list N)", tbl, barsGo+": barUnicode, each rune as the UTF-8 of string(rune)")
			g.def("barUnicodeLen", "Z", coqZ(strconv.Itoa(n)), barsGo+": len(barUnicode) = barUnicodePartCount")
		}
		if e := findValue(barsGo, "fullBlock"); e != nil {
			if s, ok := strLit(e); ok {
				g.def("fullBlock", "list N", coqBytes(s), barsGo+": string(fullBlock)")
			} else {
				fail("%s: fullBlock is not a character literal", barsGo)
			}
		}
		if e := findValue(barsGo, "nonUnicodeBlock"); e != nil {
			if s, ok := strLit(e); ok {
				g.def("nonUnicodeBlock", "list N", coqBytes(s), barsGo+": string(nonUnicodeBlock)")
			} else {
				fail("%s: nonUnicodeBlock is not a character literal", barsGo)
			}
		}
		// colour names -> SGR codes (pkg/color/coloring.go colorMap; values are constants escapeCode + "[3Xm")
		const colGo = "pkg/color/coloring.go"
		colEnv := map[string]string{}
		var colConst func(e ast.Expr) (string, bool)
		colConst = func(e ast.Expr) (string, bool) {
			switch x := e.(type) {
			case *ast.BasicLit:
				return strLit(x)
			case *ast.Ident:
				v, ok := colEnv[x.Name]
				return v, ok
			case *ast.ParenExpr:
				return colConst(x.X)
			case *ast.BinaryExpr:
				if x.Op == token.ADD {
					a, ok1 := colConst(x.X)
					b, ok2 := colConst(x.Y)
					return a + b, ok1 && ok2
				}
			}
			return "", false
		}
		if cf := parse(colGo); cf != nil {
			for _, d := range cf.Decls {
				gd, ok := d.(*ast.GenDecl)
				if !ok || gd.Tok != token.CONST {
					continue
				}
				for _, s := range gd.Specs {
					vs := s.(*ast.ValueSpec)
					for i, n := range vs.Names {
						if i < len(vs.Values) {
							if v, ok := colConst(vs.Values[i]); ok {
								colEnv[n.Name] = v
							}
						}
					}
				}
			}
			if e := findValue(colGo, "colorMap"); e != nil {
				cl, ok := e.(*ast.CompositeLit)
				if !ok {
					fail("%s: colorMap is not a composite literal", colGo)
				} else {
					var parts []string
					for _, el := range cl.Elts {
						kv, ok := el.(*ast.KeyValueExpr)
						if !ok {
							fail("%s: colorMap element", colGo)
							continue
						}
						k, ok1 := strLit(kv.Key)
						v, ok2 := colConst(kv.Value)
						if !ok1 || !ok2 {
							fail("%s: colorMap entry is not constant", colGo)
							continue
						}
						parts = append(parts, "("+coqBytes(k)+", "+coqBytes(v)+")")
					}
					g.def("colorMap", "list (list N * list N)", "["+strings.Join(parts, ";\n  ")+"]", colGo+": colorMap")
				}
			}
			if v, ok := colEnv["Reset"]; ok {
				g.def("colorReset", "list N", coqBytes(v), colGo+": Reset")
			} else {
				fail("%s: Reset is not a constant string", colGo)
			}
		}
		// caps of the array builders (function-local constants of funcsRange.go)
		const rangeGo = "pkg/expressions/stdlib/funcsRange.go"
		g.def("maxRangeElements", "Z", coqZ(c08LocalConst(rangeGo, "kfArrayRange", "maxRangeElements")), rangeGo+": kfArrayRange, largest array @range builds")
		g.def("forMaxIterations", "Z", coqZ(c08LocalConst(rangeGo, "kfArrayFor", "MAX_ITERATIONS")), rangeGo+": kfArrayFor MAX_ITERATIONS")
		g.def("forMaxOutputBytes", "Z", coqZ(c08LocalConst(rangeGo, "kfArrayFor", "MAX_OUTPUT_BYTES")), rangeGo+": kfArrayFor MAX_OUTPUT_BYTES")
		gens = append(gens, g)

		// ---------------- GenPanicSites ----------------
		p := newGen("GenPanicSites", "C08: syntactic run-time panic sites (file, function, kind, expression) of the expression layer.")
		var files []string
		files = append(files, c08Files("pkg/expressions")...)
		files = append(files, c08Files("pkg/expressions/stdlib")...)
		files = append(files, c08Files("pkg/expressions/stdmath")...)
		files = append(files,
			"pkg/stringSplitter/splitter.go",
			"pkg/multiterm/termunicode/bars.go",
			"pkg/multiterm/termscaler/scale.go",
			"pkg/color/coloring.go",
			"pkg/humanize/numeric.go",
			"pkg/humanize/units.go")
		var rows []string
		for _, f := range files {
			for _, s := range c08Sites(f) {
				rows = append(rows, fmt.Sprintf("(%s, %s, %s, %s)", c08CoqString(s.file), c08CoqString(s.fn), c08CoqString(s.kind), c08CoqString(s.expr)))
			}
		}
		var fl []string
		for _, f := range files {
			fl = append(fl, c08CoqString(f))
		}
		p.def("panic_site_files", "list string", "["+strings.Join(fl, ";\n  ")+"]%string", "files inventoried")
		p.def("panic_sites", "list (string * string * string * string)", "["+strings.Join(rows, ";\n  ")+"]%string",
			"every index / slice / quo / rem / shift / repeat / make / typeassert / panic site, in source order")
		gens = append(gens, p)
	})
}
