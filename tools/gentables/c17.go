package main

import (
	"go/ast"
	"go/token"
)

// C17: constants the array-helper model (coq/Model/ArrayFns.v) depends on.
func init() {
	generators = append(generators, func() {
		g := newGen("GenC17", "Constants of the array helpers (pkg/expressions/stage.go, truthy.go, stdlib/errors.go, stdlib/funcsRange.go).")
		sep := strConst("pkg/expressions/stage.go", "ArraySeparator")
		if len(sep) != 1 {
			fail("pkg/expressions/stage.go: ArraySeparator is not a one-byte rune literal (%q)", sep)
			sep = "\x00"
		}
		g.def("ArraySeparator", "list N", coqBytes(sep), "pkg/expressions/stage.go: ArraySeparator (UTF-8 encoding of the rune)")
		g.def("TruthyVal", "list N", coqBytes(strConst("pkg/expressions/truthy.go", "TruthyVal")), "pkg/expressions/truthy.go")
		g.def("FalsyVal", "list N", coqBytes(strConst("pkg/expressions/truthy.go", "FalsyVal")), "pkg/expressions/truthy.go")
		for _, n := range []string{"ErrorNum", "ErrorValue", "ErrorEmpty", "ErrorArgCount", "ErrorConst"} {
			g.def(n, "list N", coqBytes(strConst("pkg/expressions/stdlib/errors.go", n)), "pkg/expressions/stdlib/errors.go")
		}
		// kfArrayFor / kfArrayRange: the local caps and the marker returned when a @for cap is exceeded
		const rel = "pkg/expressions/stdlib/funcsRange.go"
		localConst := func(fn, name string) string {
			val := ""
			if fd := findFunc(rel, fn); fd != nil {
				ast.Inspect(fd.Body, func(n ast.Node) bool {
					if x, ok := n.(*ast.GenDecl); ok && x.Tok == token.CONST {
						for _, s := range x.Specs {
							vs := s.(*ast.ValueSpec)
							for i, nm := range vs.Names {
								if nm.Name == name && i < len(vs.Values) {
									if v, ok := evalInt(vs.Values[i], nil); ok {
										val = v.ExactString()
									}
								}
							}
						}
					}
					return true
				})
			}
			if val == "" {
				fail("%s: %s: constant %s not found (or not a constant integer expression)", rel, fn, name)
				val = "0"
			}
			return val
		}
		inf := []string{}
		if fd := findFunc(rel, "kfArrayFor"); fd != nil {
			ast.Inspect(fd.Body, func(n ast.Node) bool {
				if x, ok := n.(*ast.ReturnStmt); ok {
					for _, r := range x.Results {
						if s, ok := strLit(r); ok {
							inf = append(inf, s)
						}
					}
				}
				return true
			})
		}
		// several return sites are fine as long as they return the same marker
		for _, m := range inf {
			if m != inf[0] {
				fail("%s: kfArrayFor: different string literals are returned (%q, %q): which one is the cap marker?", rel, inf[0], m)
			}
		}
		if len(inf) == 0 {
			fail("%s: kfArrayFor: no string literal is returned (the cap marker)", rel)
			inf = []string{""}
		}
		g.def("MaxIterations", "Z", coqZ(localConst("kfArrayFor", "MAX_ITERATIONS")), rel+": kfArrayFor, const MAX_ITERATIONS")
		g.def("ForMaxOutputBytes", "Z", coqZ(localConst("kfArrayFor", "MAX_OUTPUT_BYTES")), rel+": kfArrayFor, const MAX_OUTPUT_BYTES")
		g.def("ForInfMarker", "list N", coqBytes(inf[0]), rel+": kfArrayFor, value returned when a cap is exceeded")
		g.def("MaxRangeElements", "Z", coqZ(localConst("kfArrayRange", "maxRangeElements")), rel+": kfArrayRange, const maxRangeElements")
		gens = append(gens, g)
	})
}
