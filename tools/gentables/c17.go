package main

import (
	"go/ast"
	"go/token"
)

// C17: constants the array-helper model (coq/Model/ArrayFns.v) depends on.
func init() {
	generators = append(generators, func() {
		g := newGen("GenC17", "Constants of the array helpers (pkg/expressions/stage.go, truthy.go, stdlib/errors.go, stdlib/funcsRange.go).")
		sep := strConst("pkg/expressions/stage.go", "ArraySeparator")
		if len(sep) != 1 {
			fail("pkg/expressions/stage.go: ArraySeparator is not a one-byte rune literal (%q)", sep)
			sep = "\x00"
		}
		g.def("ArraySeparator", "list N", coqBytes(sep), "pkg/expressions/stage.go: ArraySeparator (UTF-8 encoding of the rune)")
		g.def("TruthyVal", "list N", coqBytes(strConst("pkg/expressions/truthy.go", "TruthyVal")), "pkg/expressions/truthy.go")
		g.def("FalsyVal", "list N", coqBytes(strConst("pkg/expressions/truthy.go", "FalsyVal")), "pkg/expressions/truthy.go")
		for _, n := range []string{"ErrorNum", "ErrorValue", "ErrorEmpty", "ErrorArgCount", "ErrorConst"} {
			g.def(n, "list N", coqBytes(strConst("pkg/expressions/stdlib/errors.go", n)), "pkg/expressions/stdlib/errors.go")
		}
		// kfArrayFor: the local constant MAX_ITERATIONS and the marker returned when it is exceeded
		const rel = "pkg/expressions/stdlib/funcsRange.go"
		fd := findFunc(rel, "kfArrayFor")
		maxIter, inf := "", []string{}
		if fd != nil {
			ast.Inspect(fd.Body, func(n ast.Node) bool {
				switch x := n.(type) {
				case *ast.GenDecl:
					if x.Tok == token.CONST {
						for _, s := range x.Specs {
							vs := s.(*ast.ValueSpec)
							for i, nm := range vs.Names {
								if nm.Name == "MAX_ITERATIONS" && i < len(vs.Values) {
									if v, ok := evalInt(vs.Values[i], nil); ok {
										maxIter = v.ExactString()
									}
								}
							}
						}
					}
				case *ast.ReturnStmt:
					for _, r := range x.Results {
						if s, ok := strLit(r); ok {
							inf = append(inf, s)
						}
					}
				}
				return true
			})
		}
		if maxIter == "" {
			fail("%s: kfArrayFor: constant MAX_ITERATIONS not found", rel)
			maxIter = "0"
		}
		if len(inf) != 1 {
			fail("%s: kfArrayFor: expected exactly one string literal returned (the iteration-cap marker), found %d", rel, len(inf))
			inf = []string{""}
		}
		g.def("MaxIterations", "Z", coqZ(maxIter), rel+": kfArrayFor, const MAX_ITERATIONS")
		g.def("ForInfMarker", "list N", coqBytes(inf[0]), rel+": kfArrayFor, value returned when the iteration cap is exceeded")
		gens = append(gens, g)
	})
}
