package main

// C16: the escape table of pkg/minijson/minijson.go
//   var escapeLookup = [N]string{'\b': "\\b", ...}
// -> coq/Gen/GenJson.v: escape_lookup_len (the array length N) and escape_lookup, the list of
// (index, bytes of the entry) for every element the composite literal sets.
// Literal extraction only: the keys must be character/integer literals, the values string
// literals, the length an integer literal (or `...`); anything else is a translator failure.

import (
	"fmt"
	"go/ast"
	"go/token"
	"sort"
	"strconv"
	"strings"
)

func init() {
	generators = append(generators, func() {
		const rel = "pkg/minijson/minijson.go"
		g := newGen("GenJson", "Escape table of the JSON writer (C16).")
		e := findValue(rel, "escapeLookup")
		if e == nil {
			return
		}
		cl, ok := e.(*ast.CompositeLit)
		if !ok {
			fail("%s: escapeLookup is not a composite literal", rel)
			return
		}
		at, ok := cl.Type.(*ast.ArrayType)
		if !ok {
			fail("%s: escapeLookup is not an array or slice literal", rel)
			return
		}
		if id, ok := at.Elt.(*ast.Ident); !ok || id.Name != "string" {
			fail("%s: escapeLookup elements are not strings", rel)
			return
		}
		type ent struct {
			idx int64
			val string
		}
		var ents []ent
		seen := map[int64]bool{}
		next := int64(0)
		maxIdx := int64(-1)
		for _, el := range cl.Elts {
			idx := next
			val := el
			if kv, ok := el.(*ast.KeyValueExpr); ok {
				bl, ok := kv.Key.(*ast.BasicLit)
				if !ok {
					fail("%s: escapeLookup key %s is not a literal", rel, exprString(kv.Key))
					return
				}
				switch bl.Kind {
				case token.CHAR:
					r, _, _, err := strconv.UnquoteChar(bl.Value[1:len(bl.Value)-1], '\'')
					if err != nil {
						fail("%s: escapeLookup key %s: %v", rel, bl.Value, err)
						return
					}
					idx = int64(r)
				case token.INT:
					n, err := strconv.ParseInt(bl.Value, 0, 64)
					if err != nil {
						fail("%s: escapeLookup key %s: %v", rel, bl.Value, err)
						return
					}
					idx = n
				default:
					fail("%s: escapeLookup key %s is not a character or integer literal", rel, bl.Value)
					return
				}
				val = kv.Value
			}
			s, ok := strLit(val)
			if !ok {
				fail("%s: escapeLookup[%d] is not a string literal (%s)", rel, idx, exprString(val))
				return
			}
			if seen[idx] {
				fail("%s: escapeLookup index %d set twice", rel, idx)
				return
			}
			seen[idx] = true
			ents = append(ents, ent{idx, s})
			if idx > maxIdx {
				maxIdx = idx
			}
			next = idx + 1
		}
		length := maxIdx + 1
		switch l := at.Len.(type) {
		case nil: // slice literal: length = highest index + 1
		case *ast.Ellipsis:
		case *ast.BasicLit:
			n, err := strconv.ParseInt(l.Value, 0, 64)
			if err != nil || l.Kind != token.INT {
				fail("%s: escapeLookup length %s is not an integer literal", rel, l.Value)
				return
			}
			length = n
		default:
			fail("%s: escapeLookup length %s is not a literal", rel, exprString(at.Len))
			return
		}
		sort.Slice(ents, func(i, j int) bool { return ents[i].idx < ents[j].idx })
		parts := make([]string, len(ents))
		for i, en := range ents {
			parts[i] = fmt.Sprintf("(%d%%N, %s)", en.idx, coqBytes(en.val))
		}
		g.def("escape_lookup_len", "N", fmt.Sprintf("%d%%N", length), rel+": len(escapeLookup)")
		g.def("escape_lookup", "list (N * list N)", "["+strings.Join(parts, ";\n   ")+"]",
			rel+": escapeLookup, the elements the literal sets (index, bytes); all other elements are \"\"")
		gens = append(gens, g)
	})
}
