package main

import (
	"go/ast"
	"go/token"
	"strings"
)

// evalStr evaluates a constant string expression: literals, identifiers from env, and +.
func evalStr(e ast.Expr, env map[string]string) (string, bool) {
	switch x := e.(type) {
	case *ast.BasicLit:
		return strLit(x)
	case *ast.Ident:
		v, ok := env[x.Name]
		return v, ok
	case *ast.ParenExpr:
		return evalStr(x.X, env)
	case *ast.BinaryExpr:
		if x.Op != token.ADD {
			return "", false
		}
		a, ok1 := evalStr(x.X, env)
		b, ok2 := evalStr(x.Y, env)
		return a + b, ok1 && ok2
	case *ast.CallExpr: // conversions such as string(x) or ColorCode(x)
		if len(x.Args) == 1 {
			return evalStr(x.Args[0], env)
		}
	}
	return "", false
}

// strConstEnv evaluates every package-level string constant of a file, in order.
func strConstEnv(rel string) map[string]string {
	env := map[string]string{}
	f := parse(rel)
	if f == nil {
		return env
	}
	for _, d := range f.Decls {
		gd, ok := d.(*ast.GenDecl)
		if !ok || gd.Tok != token.CONST {
			continue
		}
		for _, s := range gd.Specs {
			vs := s.(*ast.ValueSpec)
			for i, n := range vs.Names {
				if i < len(vs.Values) {
					if v, ok := evalStr(vs.Values[i], env); ok {
						env[n.Name] = v
					}
				}
			}
		}
	}
	return env
}

func init() {
	generators = append(generators, func() {
		const rel = "pkg/color/coloring.go"
		g := newGen("GenColor", "SGR colour codes used by color.WrapIndices (rare filter).")
		env := strConstEnv(rel)
		reset, ok := env["Reset"]
		if !ok {
			fail("%s: constant Reset not found", rel)
		}
		g.def("Reset", "list N", coqBytes(reset), rel+": Reset")
		e := findValue(rel, "GroupColors")
		var cols []string
		if cl, ok := e.(*ast.CompositeLit); ok {
			for _, el := range cl.Elts {
				v, ok := evalStr(el, env)
				if !ok {
					fail("%s: GroupColors element %s is not a constant", rel, exprString(el))
				}
				cols = append(cols, coqBytes(v))
			}
		} else if e != nil {
			fail("%s: GroupColors is not a composite literal", rel)
		}
		g.def("GroupColors", "list (list N)", "["+strings.Join(cols, ";\n  ")+"]", rel+": GroupColors")
		gens = append(gens, g)
	})
}
