package main

// C09: source tables of pkg/expressions the template-syntax theorems depend on:
// the compile error values of errors.go, the "<Err:%s>" stage text of Compile, the unescape switch.

import (
	"fmt"
	"go/ast"
	"go/token"
	"strconv"
	"strings"
)

func c09Runes(s string) string {
	var parts []string
	for _, r := range s {
		parts = append(parts, strconv.Itoa(int(r)))
	}
	return "[" + strings.Join(parts, ";") + "]%N"
}

func init() {
	generators = append(generators, func() {
		g := newGen("GenTmpl", "Template compiler tables (C08/C09/C10).")

		// errors.go: package-level  Name = errors.New("message")
		const erel = "pkg/expressions/errors.go"
		var errs []string
		if f := parse(erel); f != nil {
			for _, d := range f.Decls {
				gd, ok := d.(*ast.GenDecl)
				if !ok || gd.Tok != token.VAR {
					continue
				}
				for _, s := range gd.Specs {
					vs := s.(*ast.ValueSpec)
					for i, n := range vs.Names {
						if i >= len(vs.Values) {
							continue
						}
						call, ok := vs.Values[i].(*ast.CallExpr)
						if !ok || exprString(call.Fun) != "errors.New" || len(call.Args) != 1 {
							continue
						}
						msg, ok := strLit(call.Args[0])
						if !ok {
							fail("%s: %s is not errors.New(<literal>)", erel, n.Name)
							continue
						}
						errs = append(errs, fmt.Sprintf("(%s, %s)", strconv.Quote(n.Name), strconv.Quote(msg)))
					}
				}
			}
		}
		if len(errs) == 0 {
			fail("%s: no error values found", erel)
		}
		g.def("compile_errors", "list (string * string)", "["+strings.Join(errs, "; ")+"]%string",
			erel+": package-level error values (name, message), in source order")

		// keyBuilder.go Compile: stageLiteral(fmt.Sprintf("<Err:%s>", args[0]))
		const krel = "pkg/expressions/keyBuilder.go"
		var fmts []string
		if fd := findFunc(krel, "Compile"); fd != nil {
			ast.Inspect(fd, func(n ast.Node) bool {
				if call, ok := n.(*ast.CallExpr); ok && exprString(call.Fun) == "fmt.Sprintf" && len(call.Args) >= 1 {
					if s, ok := strLit(call.Args[0]); ok {
						fmts = append(fmts, s)
					}
				}
				return true
			})
		}
		if len(fmts) != 1 || strings.Count(fmts[0], "%s") != 1 || strings.Count(fmts[0], "%") != 1 {
			fail("%s: Compile: expected exactly one fmt.Sprintf with one %%s verb, found %q", krel, fmts)
			fmts = []string{"%s"}
		}
		parts := strings.SplitN(fmts[0], "%s", 2)
		g.def("err_fmt_prefix", "list N", c09Runes(parts[0]), krel+": Compile, text of the stage emitted for an unknown function, before the name")
		g.def("err_fmt_suffix", "list N", c09Runes(parts[1]), "…and after the name")

		// keyBuilder.go unescape: switch r { case 'n': return '\n' ... } return r
		var table []string
		if fd := findFunc(krel, "unescape"); fd != nil {
			okShape := false
			for _, st := range fd.Body.List {
				sw, ok := st.(*ast.SwitchStmt)
				if !ok {
					continue
				}
				okShape = true
				for _, cc := range sw.Body.List {
					clause := cc.(*ast.CaseClause)
					if len(clause.List) != 1 || len(clause.Body) != 1 {
						okShape = false
						continue
					}
					from, ok1 := strLit(clause.List[0])
					ret, ok2 := clause.Body[0].(*ast.ReturnStmt)
					if !ok1 || !ok2 || len(ret.Results) != 1 {
						okShape = false
						continue
					}
					to, ok3 := strLit(ret.Results[0])
					if !ok3 || len([]rune(from)) != 1 || len([]rune(to)) != 1 {
						okShape = false
						continue
					}
					table = append(table, fmt.Sprintf("(%d, %d)", []rune(from)[0], []rune(to)[0]))
				}
			}
			if !okShape {
				fail("%s: unescape: switch of single-rune cases not recognised", krel)
			}
		}
		g.def("unescape_table", "list (N * N)", "["+strings.Join(table, "; ")+"]%N", krel+": unescape, (rune after the backslash, rune produced); any other rune stands for itself")
		gens = append(gens, g)
	})
}
