package main

func init() {
	generators = append(generators, func() {
		g := newGen("GenConsts", "Constants the models and theorems depend on.")
		g.def("ReadAheadBufferSize", "Z", coqZ(intConst("pkg/extractor/batchers/batcher.go", "ReadAheadBufferSize")),
			"pkg/extractor/batchers/batcher.go: buffer size every batcher passes to readahead.NewImmediate")
		g.def("AutoFlushTimeoutNs", "Z", coqZ(intConst("pkg/extractor/batchers/batcher.go", "AutoFlushTimeout")),
			"pkg/extractor/batchers/batcher.go")
		gens = append(gens, g)
	})
}
