package main

// C11: strings and tables the scalar-helper model and theorems depend on.
//   pkg/expressions/stdlib/errors.go   ErrorNum, ErrorArgCount, ErrorConst, ErrorValue   (run-time error markers)
//   pkg/expressions/stdlib/funcsArithmatic.go  maxPrecision
//   pkg/expressions/truthy.go          TruthyVal, FalsyVal
//   pkg/expressions/stage.go           ArraySeparator
//   pkg/humanize/numeric.go            baseSeparator, decimalSeparator
//   pkg/humanize/units.go              iecSizes, siSizes, unitSize and, from the bodies of AlwaysByteSize /
//                                      AlwaysByteSizeSi / AlwaysDownscale, the step, delimiter and table
//                                      each passes to unitize
// -> coq/Gen/GenC11.v.  Literal extraction only.

import (
	"go/ast"
	"go/token"
	"strconv"
	"strings"
)

func c11CharConst(rel, name string) (string, bool) {
	e := findValue(rel, name)
	if e == nil {
		return "", false
	}
	bl, ok := e.(*ast.BasicLit)
	if !ok || bl.Kind != token.CHAR {
		fail("%s: %s is not a character literal", rel, name)
		return "", false
	}
	r, _, _, err := strconv.UnquoteChar(bl.Value[1:len(bl.Value)-1], '\'')
	if err != nil || r > 127 {
		fail("%s: %s is not an ASCII character literal", rel, name)
		return "", false
	}
	return strconv.Itoa(int(r)) + "%N", true
}

func c11StringArray(rel, name string) (string, bool) {
	e := findValue(rel, name)
	if e == nil {
		return "", false
	}
	cl, ok := e.(*ast.CompositeLit)
	if !ok {
		fail("%s: %s is not a composite literal", rel, name)
		return "", false
	}
	var parts []string
	for _, el := range cl.Elts {
		s, ok := strLit(el)
		if !ok {
			fail("%s: %s has a non-literal element", rel, name)
			return "", false
		}
		parts = append(parts, coqBytes(s))
	}
	return "[" + strings.Join(parts, "; ") + "]", true
}

// the single `return unitize(x, STEP, precision, DELIM, TABLE[:])` of a wrapper function
func c11UnitizeCall(g *genFile, rel, fn, prefix string) {
	fd := findFunc(rel, fn)
	if fd == nil || fd.Body == nil {
		return
	}
	// every call of unitize / unitizeFloat in the wrapper must pass the same step, delimiter and table
	var calls []*ast.CallExpr
	ast.Inspect(fd.Body, func(n ast.Node) bool {
		if c, ok := n.(*ast.CallExpr); ok {
			if id, ok := c.Fun.(*ast.Ident); ok && (id.Name == "unitize" || id.Name == "unitizeFloat") {
				calls = append(calls, c)
			}
		}
		return true
	})
	if len(calls) == 0 {
		fail("%s: %s does not call unitize", rel, fn)
		return
	}
	var stepS, delim, tbl string
	for i, call := range calls {
		if len(call.Args) != 5 {
			fail("%s: %s does not call unitize with 5 arguments", rel, fn)
			return
		}
		step, ok := evalInt(call.Args[1], nil)
		if !ok {
			fail("%s: %s: step is not an integer literal", rel, fn)
			return
		}
		d, ok := strLit(call.Args[3])
		if !ok {
			fail("%s: %s: delimiter is not a string literal", rel, fn)
			return
		}
		t := ""
		if se, ok := call.Args[4].(*ast.SliceExpr); ok {
			if id, ok := se.X.(*ast.Ident); ok {
				t = id.Name
			}
		}
		if t == "" {
			fail("%s: %s: unit table is not `name[:]`", rel, fn)
			return
		}
		if i > 0 && (step.ExactString() != stepS || d != delim || t != tbl) {
			fail("%s: %s: the unitize calls disagree on step, delimiter or table", rel, fn)
			return
		}
		stepS, delim, tbl = step.ExactString(), d, t
	}
	g.def(prefix+"_step", "Z", coqZ(stepS), rel+": "+fn)
	g.def(prefix+"_delim", "list N", coqBytes(delim), rel+": "+fn)
	g.def(prefix+"_units", "list (list N)", tbl, rel+": "+fn+" passes "+tbl+"[:]")
}

func init() {
	generators = append(generators, func() {
		g := newGen("GenC11", "Error markers, truthy constants, separators and unit tables of the scalar helpers (C11).")
		const errs = "pkg/expressions/stdlib/errors.go"
		for _, n := range []string{"ErrorNum", "ErrorArgCount", "ErrorConst", "ErrorValue"} {
			g.def(n, "list N", coqBytes(strConst(errs, n)), errs)
		}
		g.def("maxPrecision", "Z", coqZ(intConst("pkg/expressions/stdlib/funcsArithmatic.go", "maxPrecision")),
			"pkg/expressions/stdlib/funcsArithmatic.go: largest accepted precision argument of round/percent/bytesize/bytesizesi/downscale")
		const tr = "pkg/expressions/truthy.go"
		g.def("TruthyVal", "list N", coqBytes(strConst(tr, "TruthyVal")), tr)
		g.def("FalsyVal", "list N", coqBytes(strConst(tr, "FalsyVal")), tr)
		if v, ok := c11CharConst("pkg/expressions/stage.go", "ArraySeparator"); ok {
			g.def("C11_ArraySeparator", "N", v, "pkg/expressions/stage.go")
		}
		const num = "pkg/humanize/numeric.go"
		if v, ok := c11CharConst(num, "baseSeparator"); ok {
			g.def("baseSeparator", "N", v, num)
		}
		if v, ok := c11CharConst(num, "decimalSeparator"); ok {
			g.def("decimalSeparator", "N", v, num)
		}
		const un = "pkg/humanize/units.go"
		for _, n := range []string{"iecSizes", "siSizes", "unitSize"} {
			if v, ok := c11StringArray(un, n); ok {
				g.def(n, "list (list N)", v, un)
			}
		}
		c11UnitizeCall(g, un, "AlwaysByteSize", "bytesize")
		c11UnitizeCall(g, un, "AlwaysByteSizeSi", "bytesizesi")
		c11UnitizeCall(g, un, "AlwaysDownscale", "downscale")
		gens = append(gens, g)
	})
}
