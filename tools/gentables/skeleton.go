package main

// Concurrency skeleton of the reader pool and the worker pool (C01, C02): for each anchored
// function the sequence of its communication events in syntactic (pre-order) order, each with
// its lexical context. Pure syntax: no evaluation, no types.
//
//   ESend ch v      `ch <- v`                         (ch and v printed by go/printer, whitespace collapsed)
//   ERecv ch        `<-ch`
//   ERange x        `for … := range x`
//   ECall f args    any call `f(args)`                (f printed; args printed and joined by ", ")
//   EGo             a `go` statement                  (its function literal's events follow with go_depth+1)
//   EAssign l op r  assignment / define / op-assign   (one event per statement, sides joined by ", ");
//                   `var x T = v` gives op "var" (r empty without initialiser)
//   EReturn         a `return`
//
// Context of an event: in_defer (inside a `defer` statement or a function literal that is deferred),
// go_depth (number of enclosing `go` statements), loop_depth (number of enclosing for/range
// statements, counted from the innermost enclosing function literal), clo (number of enclosing
// function literals that are neither the operand of go nor of defer, e.g. a callback), cond (number of enclosing
// if / else bodies and switch / select case bodies, counted from the innermost enclosing loop or literal).
// The checks over these lists are Coq definitions (Model/Skel.v), proved by computation in Props/.

import (
	"bytes"
	"fmt"
	"go/ast"
	"go/printer"
	"go/token"
	"strings"
)

type skelCtx struct {
	inDefer bool
	goDepth int
	loop    int
	clo     int
	cond    int // enclosing if / else bodies and switch / select case bodies, counted from the innermost enclosing loop or function literal
}

func render(n ast.Node) string {
	var b bytes.Buffer
	printer.Fprint(&b, fset, n)
	return strings.Join(strings.Fields(b.String()), " ")
}

func coqStr(s string) string {
	return "\"" + strings.ReplaceAll(s, "\"", "\"\"") + "\"%string"
}

func renderList(es []ast.Expr) string {
	p := make([]string, len(es))
	for i, e := range es {
		p[i] = render(e)
	}
	return strings.Join(p, ", ")
}

type skelWalker struct {
	out []string
}

func (w *skelWalker) emit(c skelCtx, k string) {
	w.out = append(w.out, fmt.Sprintf("mkev (%s) %v %d %d %d %d", k, c.inDefer, c.goDepth, c.loop, c.clo, c.cond))
}

func (w *skelWalker) walk(n ast.Node, c skelCtx) {
	if n == nil {
		return
	}
	switch x := n.(type) {
	case *ast.GoStmt:
		w.emit(c, "EGo")
		for _, a := range x.Call.Args {
			w.walk(a, c)
		}
		c2 := c
		c2.goDepth++
		c2.loop = 0
		c2.cond = 0
		c2.inDefer = false
		if fl, ok := x.Call.Fun.(*ast.FuncLit); ok {
			w.walk(fl.Body, c2)
		} else {
			w.emit(c2, fmt.Sprintf("ECall %s %s", coqStr(render(x.Call.Fun)), coqStr(renderList(x.Call.Args))))
		}
		return
	case *ast.DeferStmt:
		c2 := c
		c2.inDefer = true
		if fl, ok := x.Call.Fun.(*ast.FuncLit); ok {
			c2.loop = 0
			c2.cond = 0
			w.walk(fl.Body, c2)
		} else {
			for _, a := range x.Call.Args {
				w.walk(a, c)
			}
			w.emit(c2, fmt.Sprintf("ECall %s %s", coqStr(render(x.Call.Fun)), coqStr(renderList(x.Call.Args))))
		}
		return
	case *ast.FuncLit:
		c2 := c
		c2.clo++
		c2.loop = 0
		c2.cond = 0
		w.walk(x.Body, c2)
		return
	case *ast.IfStmt:
		w.walk(x.Init, c)
		w.walk(x.Cond, c)
		c2 := c
		c2.cond++
		w.walk(x.Body, c2)
		if x.Else != nil {
			w.walk(x.Else, c2)
		}
		return
	case *ast.CaseClause:
		for _, e := range x.List {
			w.walk(e, c)
		}
		c2 := c
		c2.cond++
		for _, st := range x.Body {
			w.walk(st, c2)
		}
		return
	case *ast.CommClause:
		w.walk(x.Comm, c)
		c2 := c
		c2.cond++
		for _, st := range x.Body {
			w.walk(st, c2)
		}
		return
	case *ast.ForStmt:
		w.walk(x.Init, c)
		c2 := c
		c2.loop++
		c2.cond = 0
		w.walk(x.Cond, c2)
		w.walk(x.Body, c2)
		w.walk(x.Post, c2)
		return
	case *ast.RangeStmt:
		w.emit(c, fmt.Sprintf("ERange %s", coqStr(render(x.X))))
		c2 := c
		c2.loop++
		c2.cond = 0
		w.walk(x.Body, c2)
		return
	case *ast.SendStmt:
		w.walk(x.Value, c)
		w.emit(c, fmt.Sprintf("ESend %s %s", coqStr(render(x.Chan)), coqStr(render(x.Value))))
		return
	case *ast.UnaryExpr:
		if x.Op == token.ARROW {
			w.emit(c, fmt.Sprintf("ERecv %s", coqStr(render(x.X))))
			return
		}
	case *ast.CallExpr:
		for _, a := range x.Args {
			w.walk(a, c)
		}
		if _, ok := x.Fun.(*ast.FuncLit); ok {
			w.walk(x.Fun, c)
			return
		}
		w.emit(c, fmt.Sprintf("ECall %s %s", coqStr(render(x.Fun)), coqStr(renderList(x.Args))))
		return
	case *ast.AssignStmt:
		for _, r := range x.Rhs {
			w.walk(r, c)
		}
		w.emit(c, fmt.Sprintf("EAssign %s %s %s", coqStr(renderList(x.Lhs)), coqStr(x.Tok.String()), coqStr(renderList(x.Rhs))))
		return
	case *ast.DeclStmt:
		if gd, ok := x.Decl.(*ast.GenDecl); ok && gd.Tok == token.VAR {
			for _, sp := range gd.Specs {
				vs := sp.(*ast.ValueSpec)
				for _, r := range vs.Values {
					w.walk(r, c)
				}
				names := make([]string, len(vs.Names))
				for i, n := range vs.Names {
					names[i] = n.Name
				}
				w.emit(c, fmt.Sprintf("EAssign %s %s %s", coqStr(strings.Join(names, ", ")), coqStr("var"), coqStr(renderList(vs.Values))))
			}
		}
		return
	case *ast.ReturnStmt:
		for _, r := range x.Results {
			w.walk(r, c)
		}
		w.emit(c, "EReturn")
		return
	}
	// generic descent in syntactic order
	first := true
	ast.Inspect(n, func(m ast.Node) bool {
		if m == nil {
			return false
		}
		if first {
			first = false
			return true
		}
		w.walk(m, c)
		return false
	})
}

func init() {
	generators = append(generators, func() {
		g := newGen("GenSkel", "Concurrency skeleton (communication events in syntactic order with their lexical context) of the reader pool and worker pool.")
		g.sb.WriteString("From RareV Require Import Model.Skel.\n\n")
		type tgt struct{ rel, fn, name string }
		for _, t := range []tgt{
			{"pkg/extractor/batchers/fileBatcher.go", "OpenFilesToChan", "skel_open_files"},
			{"pkg/extractor/batchers/batcher.go", "syncReaderToBatcher", "skel_sync_reader"},
			{"pkg/extractor/batchers/batcher.go", "syncReaderToBatcherWithTimeFlush", "skel_sync_reader_flush"},
			{"pkg/extractor/batchers/readerBatcher.go", "OpenReaderToChan", "skel_open_reader"},
			{"pkg/extractor/batchers/batcher.go", "close", "skel_batcher_close"},
			{"pkg/extractor/extractor.go", "New", "skel_extractor_new"},
			{"pkg/extractor/extractor.go", "asyncWorker", "skel_async_worker"},
			{"cmd/helpers/updatingAggregator.go", "RunAggregationLoop", "skel_agg_loop"},
		} {
			fd := findFunc(t.rel, t.fn)
			if fd == nil || fd.Body == nil {
				fail("%s: function %s not found", t.rel, t.fn)
				continue
			}
			w := &skelWalker{}
			w.walk(fd.Body, skelCtx{})
			g.def(t.name, "list ev", "[\n  "+strings.Join(w.out, ";\n  ")+"\n]", t.rel+": "+t.fn)
		}
		gens = append(gens, g)
	})
}
