package main

// C19: pkg/expressions/stdmath/ops.go -> coq/Gen/GenMathOps.v
//   orderOfOps (precedence levels, tightest first), the key set of `ops` (binary operators)
//   and the key set of `uniOps` (unary operators / functions), in source order.

import (
	"go/ast"
	"strings"
)

func init() {
	generators = append(generators, func() {
		const rel = "pkg/expressions/stdmath/ops.go"
		g := newGen("GenMathOps", "Operator tables of pkg/expressions/stdmath/ops.go (C19).")

		// orderOfOps = [][]OpCode{ {"^"}, {">>","<<"}, ... }
		var levels []string
		if e := findValue(rel, "orderOfOps"); e != nil {
			cl, ok := e.(*ast.CompositeLit)
			if !ok {
				fail("%s: orderOfOps is not a composite literal", rel)
			} else {
				for _, lv := range cl.Elts {
					lcl, ok := lv.(*ast.CompositeLit)
					if !ok {
						fail("%s: orderOfOps level is not a composite literal", rel)
						continue
					}
					var opsInLevel []string
					for _, o := range lcl.Elts {
						s, ok := strLit(o)
						if !ok {
							fail("%s: orderOfOps entry is not a string literal", rel)
							continue
						}
						opsInLevel = append(opsInLevel, coqBytes(s))
					}
					levels = append(levels, "["+strings.Join(opsInLevel, "; ")+"]")
				}
			}
		}
		g.def("orderOfOps", "list (list (list N))", "[\n  "+strings.Join(levels, ";\n  ")+"\n]",
			rel+": orderOfOps, tightest level first")

		keys := func(name string) string {
			var ks []string
			if e := findValue(rel, name); e != nil {
				cl, ok := e.(*ast.CompositeLit)
				if !ok {
					fail("%s: %s is not a composite literal", rel, name)
					return "[]"
				}
				for _, kv := range cl.Elts {
					p, ok := kv.(*ast.KeyValueExpr)
					if !ok {
						fail("%s: %s has a non key-value element", rel, name)
						continue
					}
					s, ok := strLit(p.Key)
					if !ok {
						fail("%s: %s key is not a string literal", rel, name)
						continue
					}
					ks = append(ks, coqBytes(s))
				}
			}
			return "[\n  " + strings.Join(ks, ";\n  ") + "\n]"
		}
		g.def("binOpKeys", "list (list N)", keys("ops"), rel+": keys of the map `ops` (binary operators)")
		g.def("uniOpKeys", "list (list N)", keys("uniOps"), rel+": keys of the map `uniOps` (unary operators and functions)")
		gens = append(gens, g)
	})
}
