module gentables

go 1.23
