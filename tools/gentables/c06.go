package main

// C06: cmd/helpers/exitCodes.go (exit statuses) and cmd/helpers/extractorBuilder.go (the source
// name given to standard input) -> coq/Gen/GenC06.v

import (
	"go/ast"
)

func init() {
	generators = append(generators, func() {
		const relExit = "cmd/helpers/exitCodes.go"
		const relBuild = "cmd/helpers/extractorBuilder.go"
		g := newGen("GenC06", "Exit statuses and the stdin source name (C06).")
		g.def("ExitCodeNoData", "Z", coqZ(intConst(relExit, "ExitCodeNoData")), relExit+": nothing matched")
		g.def("ExitCodeInvalidUsage", "Z", coqZ(intConst(relExit, "ExitCodeInvalidUsage")), relExit+": read errors, parse errors, bad usage")

		// batchers.OpenReaderToChan("<stdin>", os.Stdin, ...) in BuildBatcherFromArguments
		name, found := "", false
		if fd := findFunc(relBuild, "BuildBatcherFromArguments"); fd != nil && fd.Body != nil {
			ast.Inspect(fd.Body, func(n ast.Node) bool {
				ce, ok := n.(*ast.CallExpr)
				if !ok || found {
					return true
				}
				if exprString(ce.Fun) == "batchers.OpenReaderToChan" && len(ce.Args) > 0 {
					if s, ok := strLit(ce.Args[0]); ok {
						name, found = s, true
					}
				}
				return true
			})
			if !found {
				fail("%s: BuildBatcherFromArguments has no batchers.OpenReaderToChan(<string literal>, ...) call", relBuild)
			}
		}
		g.def("StdinName", "list N", coqBytes(name), relBuild+": source name of standard input")
		gens = append(gens, g)
	})
}
