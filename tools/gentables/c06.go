package main

// C06: cmd/helpers/exitCodes.go (exit statuses) and cmd/helpers/extractorBuilder.go (the source
// name given to standard input) -> coq/Gen/GenC06.v

import (
	"fmt"
	"go/ast"
	"os"
	"path/filepath"
	"sort"
	"strings"
)

func init() {
	generators = append(generators, func() {
		const relExit = "cmd/helpers/exitCodes.go"
		const relBuild = "cmd/helpers/extractorBuilder.go"
		g := newGen("GenC06", "Exit statuses and the stdin source name (C06).")
		g.def("ExitCodeNoData", "Z", coqZ(intConst(relExit, "ExitCodeNoData")), relExit+": nothing matched")
		g.def("ExitCodeInvalidUsage", "Z", coqZ(intConst(relExit, "ExitCodeInvalidUsage")), relExit+": read errors, parse errors, bad usage")

		// batchers.OpenReaderToChan("<stdin>", os.Stdin, ...) in BuildBatcherFromArguments
		name, found := "", false
		if fd := findFunc(relBuild, "BuildBatcherFromArguments"); fd != nil && fd.Body != nil {
			ast.Inspect(fd.Body, func(n ast.Node) bool {
				ce, ok := n.(*ast.CallExpr)
				if !ok || found {
					return true
				}
				if exprString(ce.Fun) == "batchers.OpenReaderToChan" && len(ce.Args) > 0 {
					if s, ok := strLit(ce.Args[0]); ok {
						name, found = s, true
					}
				}
				return true
			})
			if !found {
				fail("%s: BuildBatcherFromArguments has no batchers.OpenReaderToChan(<string literal>, ...) call", relBuild)
			}
		}
		g.def("StdinName", "list N", coqBytes(name), relBuild+": source name of standard input")
		gens = append(gens, g)
	})
}

// C06: where inputs are opened and closed in pkg/extractor/batchers -> coq/Gen/GenC06Skel.v.
// For every function (declaration) that calls openFileToReader: the open sites, the `defer` statements whose
// call (or deferred function literal) calls a .Close method, and the plain .Close calls, each with its loop
// depth = number of for/range statements around it inside its innermost enclosing function (literal).
// Obligation (Props/C06.v): an input is closed when IT has been read - no deferred Close sits inside a loop
// of its own function (it would run only when the whole loop is over), and every opener closes.
func init() {
	generators = append(generators, func() {
		const dir = "pkg/extractor/batchers"
		g := newGen("GenC06Skel", "Open / Close sites of the functions of pkg/extractor/batchers that call openFileToReader (C06).")
		ents, err := os.ReadDir(filepath.Join(repo, dir))
		if err != nil {
			fail("%s: %v", dir, err)
			return
		}
		var names []string
		for _, e := range ents {
			if !e.IsDir() && strings.HasSuffix(e.Name(), ".go") && !strings.HasSuffix(e.Name(), "_test.go") {
				names = append(names, e.Name())
			}
		}
		sort.Strings(names)
		isOpen := func(ce *ast.CallExpr) bool {
			id, ok := ce.Fun.(*ast.Ident)
			return ok && id.Name == "openFileToReader"
		}
		isClose := func(ce *ast.CallExpr) bool {
			se, ok := ce.Fun.(*ast.SelectorExpr)
			return ok && se.Sel.Name == "Close"
		}
		containsClose := func(n ast.Node) bool {
			found := false
			ast.Inspect(n, func(m ast.Node) bool {
				if ce, ok := m.(*ast.CallExpr); ok && isClose(ce) {
					found = true
				}
				return true
			})
			return found
		}
		var opens, deferred, plain []string
		for _, n := range names {
			f := parse(dir + "/" + n)
			if f == nil {
				continue
			}
			for _, d := range f.Decls {
				fd, ok := d.(*ast.FuncDecl)
				if !ok || fd.Body == nil {
					continue
				}
				has := false
				ast.Inspect(fd.Body, func(m ast.Node) bool {
					if ce, ok := m.(*ast.CallExpr); ok && isOpen(ce) {
						has = true
					}
					return true
				})
				if !has {
					continue
				}
				fn := coqStr(n + ": " + fd.Name.Name)
				var walk func(n ast.Node, loop int)
				walk = func(n ast.Node, loop int) {
					if n == nil {
						return
					}
					switch x := n.(type) {
					case *ast.FuncLit:
						walk(x.Body, 0)
						return
					case *ast.ForStmt:
						walk(x.Init, loop)
						walk(x.Cond, loop+1)
						walk(x.Post, loop+1)
						walk(x.Body, loop+1)
						return
					case *ast.RangeStmt:
						walk(x.X, loop)
						walk(x.Body, loop+1)
						return
					case *ast.DeferStmt:
						if containsClose(x.Call) {
							deferred = append(deferred, fmt.Sprintf("(%s, %d)", fn, loop))
						}
						return
					case *ast.CallExpr:
						if isOpen(x) {
							opens = append(opens, fmt.Sprintf("(%s, %d)", fn, loop))
						} else if isClose(x) {
							plain = append(plain, fmt.Sprintf("(%s, %d)", fn, loop))
						}
					}
					first := true
					ast.Inspect(n, func(m ast.Node) bool {
						if m == nil {
							return false
						}
						if first {
							first = false
							return true
						}
						walk(m, loop)
						return false
					})
				}
				walk(fd.Body, 0)
			}
		}
		lst := func(xs []string) string { return "[" + strings.Join(xs, "; ") + "]" }
		g.def("open_sites", "list (string * nat)", lst(opens), dir+": calls of openFileToReader (function, loop depth)")
		g.def("deferred_closes", "list (string * nat)", lst(deferred), dir+": defer statements that call a .Close, in those functions (function, loop depth of the defer statement)")
		g.def("plain_closes", "list (string * nat)", lst(plain), dir+": .Close calls that are not deferred, in those functions (function, loop depth)")
		gens = append(gens, g)
	})
}
