#!/usr/bin/env python3
"""Regenerates the machine-derived part of DESIGN.md (between the STATUS markers): per property the
theorem files and counts, the findings (repaired / recorded) and the seeded changes with what caught them."""
import glob, json, os, re, subprocess
ROOT = os.path.dirname(os.path.dirname(os.path.abspath(__file__)))
props = {}
for f in sorted(glob.glob(os.path.join(ROOT, "props", "C*.json"))):
    d = json.load(open(f)); props[d["id"]] = d
titles = {json.loads(l)["id"]: json.loads(l)["title"] for l in open(os.path.join(ROOT, "properties.jsonl"))}

def thms(pf):
    txt = re.sub(r"\(\*.*?\*\)", "", open(os.path.join(ROOT, "coq", pf)).read(), flags=re.S)
    return re.findall(r"^\s*(?:Theorem|Example|Corollary|Lemma)\s+([A-Za-z0-9_']+)", txt, flags=re.M)

def loc(files):
    n = 0
    for f in files:
        p = os.path.join(ROOT, "coq", f)
        if os.path.exists(p):
            n += sum(1 for _ in open(p))
    return n

out = []
out.append("### 11.1 Per property: what was built\n")
out.append("| Id | Title | Theorems in `Props/` | Coq lines (model+proofs+props) | Harness | Claimed |")
out.append("|---|---|---|---|---|---|")
for pid in sorted(titles):
    P = props.get(pid)
    if not P:
        out.append("| %s | %s | — | — | — | no |" % (pid, titles[pid])); continue
    names = thms(P["props_file"])
    refuted = [n for n in names if "refuted" in n]
    partial = [n for n in names if "partial" in n]
    files = [P["props_file"], P["corr_file"]] + P.get("cone", [])
    # model files: those imported by the props file under Model/
    txt = open(os.path.join(ROOT, "coq", P["props_file"])).read()
    models = sorted(set("Model/%s.v" % m for m in re.findall(r"Model\.([A-Za-z0-9_]+)", txt)))
    n = loc(files + models)
    extra = ""
    if refuted or partial:
        extra = " (%d `_refuted`, %d `_partial`)" % (len(refuted), len(partial))
    out.append("| %s | %s | %d%s | %d | `harness/%s` | %s |" % (pid, titles[pid], len(names), extra, n, P["harness"].lower(),
               "yes" + (" (partial)" if "PARTIAL" in P.get("level_text", "") else "") if P.get("claimed", True) is not False else "no"))

out.append("\n### 11.2 Findings on the pinned tree\n")
out.append("Repaired = one unguarded `fix:` commit in /repo each (existing tests unedited and passing); the failing input is in `corpus/` and replayed on every run. Recorded = `status: known` in `known_findings.json`; the check prints `KNOWN-FINDING` for inputs in that domain and exits 0.\n")
out.append("| Finding | Status | /repo commit | What fails |")
out.append("|---|---|---|---|")
es = []
for f in sorted(glob.glob(os.path.join(ROOT, "known_findings.d", "*.json"))):
    es += json.load(open(f))
# one-file view of known_findings.d (the check reads the directory first; this file is for readers):
# each entry carries the line form  "known: property=<id> <what fails>"  /  "fixed: property=<id> <commit> <what failed>"
agg = []
for e in es:
    e2 = dict(e)
    w = " ".join(str(e.get("what", "")).split())
    e2["line"] = ("fixed: property=%s %s %s" % (e["property"], e.get("commit", "?"), w)) if e["status"] == "fixed" else ("known: property=%s %s" % (e["property"], w))
    agg.append(e2)
json.dump(agg, open(os.path.join(ROOT, "known_findings.json"), "w"), indent=1, ensure_ascii=False)
for e in es:
    what = e["what"].replace("|", "\\|").replace("\n", " ")
    if len(what) > 230:
        what = what[:230] + "…"
    out.append("| %s | %s | %s | %s |" % (e["id"], "repaired" if e["status"] == "fixed" else "recorded", e.get("commit", ""), what))

out.append("\n### 11.3 Seeded breaking changes (written by fresh sub-agents that saw only the property text) and what catches them\n")
out.append("Each was confirmed by `tools/keepseed.py` in scratch worktrees: patch applies, tree builds, existing tests pass, the demonstration fails with the change and passes without. `failing input` = the check exits 1 with a concrete replay; `obligation` = a proof or translator obligation breaks and no failing input was found (`no-failing-input-found`). `meta.json` of a seed records the /repo commit its patch applies to (`applies_to`, maintained by `tools/seedbase.py`); a seed whose lines were later touched by a `fix:` commit was re-applied by hand on the then-current HEAD where that was possible (noted), and one (a second round-2 change for C14: a minimum of one block for small stacked segments) was dropped because the repair of C14-stacked-negative made its demonstration pass.\n")
NOTES = {}
try:
    NOTES = json.load(open(os.path.join(ROOT, "seeded", "NOTES.json")))
except Exception:
    pass
_seeds = [d for d in sorted(glob.glob(os.path.join(ROOT, "seeded", "*"))) if os.path.exists(os.path.join(d, "meta.json"))]
_missed = [os.path.basename(d) for d in _seeds if any(w in (NOTES.get(os.path.basename(d)) or json.load(open(os.path.join(d, "meta.json"))).get("caught_note") or "") for w in ("initially missed", "missed at first"))]
_now = [os.path.basename(d) for d in _seeds if not json.load(open(os.path.join(d, "meta.json"))).get("maintainer_verification", {}).get("caught")
        and not (NOTES.get(os.path.basename(d)) or "").startswith("caught by ./check")]
import re as _re
_rounds = max([1] + [int(m.group(1)) for d in _seeds for m in [_re.search(r"-r(\d+)-", os.path.basename(d))] if m])
out.append("Totals: %d seeded changes kept (%d rounds); %d of them were missed by the check as it stood when the seed arrived and led to a stronger generator, model or obligation (marked *initially missed* / *missed at first* below); not caught at the time of writing: %s.\n" % (len(_seeds), _rounds, len(_missed), ", ".join(_now) if _now else "none"))
out.append("| Seed | Property | What the change does | Needs | Caught by `./check <id> quick` |")
out.append("|---|---|---|---|---|")
for d in sorted(glob.glob(os.path.join(ROOT, "seeded", "*"))):
    mf = os.path.join(d, "meta.json")
    if not os.path.exists(mf):
        continue
    m = json.load(open(mf))
    v = m.get("maintainer_verification", {})
    def cut(s, n):
        s = str(s).replace("|", "\\|").replace("\n", " ")
        return s if len(s) <= n else s[:n] + "…"
    caught = ("no (this property's check)" if (NOTES.get(os.path.basename(d)) or "").startswith("caught by ./check") else "NO") if not v.get("caught") else ("yes — failing input" if v.get("caught_with_failing_input") else "yes — obligation (" + cut(re.sub(r".*no longer checks: ", "", v.get("check_output", ""), flags=re.S).strip(), 60) + ")")
    note = NOTES.get(os.path.basename(d)) or m.get("caught_note")
    if note:
        caught += "; " + note
    out.append("| %s | %s | %s | %s | %s |" % (os.path.basename(d), m.get("breaks_property", m.get("property")), cut(m.get("what_it_breaks", ""), 260), cut(m.get("needs_to_manifest", ""), 200), caught))

status = "\n".join(out) + "\n"
p = os.path.join(ROOT, "DESIGN.md")
s = open(p).read()
B, E = "<!-- STATUS:BEGIN (generated by tools/mkstatus.py) -->", "<!-- STATUS:END -->"
if B in s:
    s = s[:s.index(B)] + B + "\n" + status + E + s[s.index(E) + len(E):]
    open(p, "w").write(s)
    print("DESIGN.md status section regenerated (%d lines)" % len(out))
else:
    print(status)
