From Coq Require Import List ZArith NArith Lia Bool.
Import ListNotations.

(* abstract tokens after tokenization: operators by level, atoms, groups (already nested), unary mods *)
Inductive tok :=
| TAtom (a : nat)
| TOp (op : nat)          (* op code; level given by lvl *)
| TMod (m : nat)
| TGroup (g : list tok).

Inductive ast :=
| Atom (a : nat)
| Un (m : nat) (e : ast)
| Bin (op : nat) (l r : ast)
| Grp (e : ast).           (* explicit group node so that inorder is exact *)

Section P.
Variable lvl : nat -> nat.   (* smaller = binds tighter; all ops have a level >= 1; 0 reserved? *)

(* opCodeOrder last peek: Some last.  None = "" (no last) -> always recurse *)
Definition order (last : option nat) (peek : nat) : Z :=
  match last with
  | None => 1
  | Some l => if Nat.ltb (lvl l) (lvl peek) then (-1) else if Nat.eqb (lvl l) (lvl peek) then 0 else 1
  end%Z.

Definition mulop := 0%nat. (* implied multiplication op code *)

(* getNextExpr: fuel on depth of groups + mods *)
Fixpoint parse (fuel : nat) (last : option nat) (ts : list tok) {struct fuel} : option (ast * list tok) :=
  match fuel with
  | O => None
  | S fuel =>
    let fix next_expr (f2 : nat) (ts : list tok) {struct f2} : option (ast * list tok) :=
        match f2 with O => None | S f2 =>
        match ts with
        | TAtom a :: r => Some (Atom a, r)
        | TGroup g :: r =>
            match parse fuel None g with
            | Some (e, []) => Some (Grp e, r)
            | _ => None
            end
        | TMod m :: r =>
            match next_expr f2 r with
            | Some (e, r') => Some (Un m e, r')
            | None => None
            end
        | _ => None
        end end in
    let fix loop (f3 : nat) (ret : ast) (ts : list tok) {struct f3} : option (ast * list tok) :=
        match f3 with O => None | S f3 =>
        match ts with
        | [] => Some (ret, [])
        | t :: r =>
          let peek := match t with TOp o => Some (o, r) | TGroup _ => Some (mulop, ts) | _ => None end in
          match peek with
          | None => None
          | Some (o, rest) =>
            if (order last o <=? 0)%Z then Some (ret, ts)
            else match parse fuel (Some o) rest with
                 | Some (e, r') => loop f3 (Bin o ret e) r'
                 | None => None
                 end
          end
        end end in
    match ts with
    | [] => None
    | _ => match next_expr (S (length ts)) ts with
           | Some (e, r) => loop (S (length r)) e r
           | None => None
           end
    end
  end.
End P.

Definition lvl (o : nat) : nat := match o with 0 => 3 | 1 => 5 (* + *) | 2 => 5 (* - *) | 3 => 3 (* / *) | 4 => 1 (* ^ *) | _ => 7 end.
Definition p ts := parse lvl 50 None ts.
(* a + b * c ^ d - e *)
Eval vm_compute in p [TAtom 1; TOp 1; TAtom 2; TOp 0; TAtom 3; TOp 4; TAtom 4; TOp 2; TAtom 5].
(* a - b - c *)
Eval vm_compute in p [TAtom 1; TOp 2; TAtom 2; TOp 2; TAtom 3].
(* 2(1+1) *)
Eval vm_compute in p [TAtom 2; TGroup [TAtom 1; TOp 1; TAtom 1]].
Eval vm_compute in p [TMod 0; TAtom 2; TOp 4; TAtom 2].
Eval vm_compute in p [TMod 0].
