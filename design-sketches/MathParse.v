From Coq Require Import List Arith Lia Bool.
Import ListNotations.

Inductive tok := TAtom (a : nat) | TOp (o : nat) | TMod (m : nat) | TGroup (g : list tok).
Inductive ast := Atom (a : nat) | Un (m : nat) (e : ast) | Bin (o : nat) (imp : bool) (l r : ast) | Grp (e : ast).

Section P.
Variable lvl : nat -> nat.          (* smaller = binds tighter *)
Variable mulop : nat.

(* opCodeOrder last peek <= 0, i.e. "stop here": last binds tighter or equal *)
Definition stops (last : option nat) (o : nat) : bool :=
  match last with None => false | Some l => lvl l <=? lvl o end.

Fixpoint parse (fuel : nat) (last : option nat) (ts : list tok) {struct fuel} : option (ast * list tok) :=
  match fuel with O => None | S f =>
    match ts with
    | [] => None
    | _ => match next_expr f ts with
           | Some (e, r) => loop f last e r
           | None => None
           end
    end
  end
with next_expr (fuel : nat) (ts : list tok) {struct fuel} : option (ast * list tok) :=
  match fuel with O => None | S f =>
    match ts with
    | TAtom a :: r => Some (Atom a, r)
    | TGroup g :: r => match parse f None g with Some (e, []) => Some (Grp e, r) | _ => None end
    | TMod m :: r => match next_expr f r with Some (e, r') => Some (Un m e, r') | None => None end
    | _ => None
    end
  end
with loop (fuel : nat) (last : option nat) (ret : ast) (ts : list tok) {struct fuel} : option (ast * list tok) :=
  match fuel with O => None | S f =>
    match ts with
    | [] => Some (ret, [])
    | TOp o :: rest =>
        if stops last o then Some (ret, ts)
        else match parse f (Some o) rest with
             | Some (e, r') => loop f last (Bin o false ret e) r'
             | None => None
             end
    | TGroup _ :: _ =>
        if stops last mulop then Some (ret, ts)
        else match parse f (Some mulop) ts with
             | Some (e, r') => loop f last (Bin mulop true ret e) r'
             | None => None
             end
    | _ => None
    end
  end.

Fixpoint inorder (t : ast) : list tok :=
  match t with
  | Atom a => [TAtom a] | Un m e => TMod m :: inorder e | Grp e => [TGroup (inorder e)]
  | Bin o imp l r => inorder l ++ (if imp then [] else [TOp o]) ++ inorder r
  end.

(* ---- soundness: nothing dropped, nothing invented ---- *)
Lemma sound fuel :
  (forall last ts t r, parse fuel last ts = Some (t, r) -> ts = inorder t ++ r) /\
  (forall ts t r, next_expr fuel ts = Some (t, r) -> ts = inorder t ++ r) /\
  (forall last ret ts t r, loop fuel last ret ts = Some (t, r) -> inorder ret ++ ts = inorder t ++ r).
Proof.
  induction fuel as [|f (IHp & IHn & IHl)]; [repeat split; intros; discriminate|].
  repeat split.
  - intros last ts t r H. cbn [parse] in H. destruct ts as [|t0 ts0]; [discriminate|].
    destruct (next_expr f (t0 :: ts0)) as [[e r0]|] eqn:E; [|discriminate].
    apply IHn in E. apply IHl in H. now rewrite E.
  - intros ts t r H. cbn [next_expr] in H. destruct ts as [|[a|o|m|g] ts0]; try discriminate.
    + inversion H; subst. reflexivity.
    + destruct (next_expr f ts0) as [[e r']|] eqn:E; [|discriminate]. inversion H; subst. apply IHn in E. now rewrite E.
    + destruct (parse f None g) as [[e [|x xs]]|] eqn:E; try discriminate. inversion H; subst.
      apply IHp in E. rewrite app_nil_r in E. now rewrite E.
  - intros last ret ts t r H. cbn [loop] in H. destruct ts as [|[a|o|m|g] ts0]; try discriminate.
    + inversion H; subst. reflexivity.
    + destruct (stops last o); [inversion H; subst; reflexivity|].
      destruct (parse f (Some o) ts0) as [[e r']|] eqn:E; [|discriminate].
      apply IHp in E. apply IHl in H. rewrite <- H. simpl. rewrite E, <- !app_assoc. reflexivity.
    + destruct (stops last mulop); [inversion H; subst; reflexivity|].
      destruct (parse f (Some mulop) (TGroup g :: ts0)) as [[e r']|] eqn:E; [|discriminate].
      apply IHp in E. apply IHl in H. rewrite <- H. simpl. rewrite E, <- !app_assoc. reflexivity.
Qed.


Lemma parse_S f last ts : parse (S f) last ts =
    match ts with
    | [] => None
    | _ => match next_expr f ts with Some (e, r) => loop f last e r | None => None end
    end.
Proof. reflexivity. Qed.
Lemma next_S f ts : next_expr (S f) ts =
    match ts with
    | TAtom a :: r => Some (Atom a, r)
    | TGroup g :: r => match parse f None g with Some (e, []) => Some (Grp e, r) | _ => None end
    | TMod m :: r => match next_expr f r with Some (e, r') => Some (Un m e, r') | None => None end
    | _ => None
    end.
Proof. reflexivity. Qed.
Lemma loop_S f last ret ts : loop (S f) last ret ts =
    match ts with
    | [] => Some (ret, [])
    | TOp o :: rest =>
        if stops last o then Some (ret, ts)
        else match parse f (Some o) rest with Some (e, r') => loop f last (Bin o false ret e) r' | None => None end
    | TGroup _ :: _ =>
        if stops last mulop then Some (ret, ts)
        else match parse f (Some mulop) ts with Some (e, r') => loop f last (Bin mulop true ret e) r' | None => None end
    | _ => None
    end.
Proof. reflexivity. Qed.

(* ---- fuel monotonicity ---- *)
Lemma mono fuel :
  (forall last ts res, parse fuel last ts = Some res -> parse (S fuel) last ts = Some res) /\
  (forall ts res, next_expr fuel ts = Some res -> next_expr (S fuel) ts = Some res) /\
  (forall last ret ts res, loop fuel last ret ts = Some res -> loop (S fuel) last ret ts = Some res).
Proof.
  induction fuel as [|f (IHp & IHn & IHl)]; [repeat split; intros; discriminate|].
  repeat split.
  - intros last ts res H. rewrite parse_S in H. rewrite (parse_S (S f)). destruct ts as [|t0 ts0]; [discriminate|].
    destruct (next_expr f (t0 :: ts0)) as [[e r0]|] eqn:E; [|discriminate].
    rewrite (IHn _ _ E). now apply IHl.
  - intros ts res H. rewrite next_S in H. rewrite (next_S (S f)). destruct ts as [|[a|o|m|g] ts0]; try discriminate; auto.
    + destruct (next_expr f ts0) as [[e r']|] eqn:E; [|discriminate]. now rewrite (IHn _ _ E).
    + destruct (parse f None g) as [[e r']|] eqn:E; [|discriminate]. now rewrite (IHp _ _ _ E).
  - intros last ret ts res H. rewrite loop_S in H. rewrite (loop_S (S f)). destruct ts as [|[a|o|m|g] ts0]; try discriminate; auto.
    + destruct (stops last o); auto.
      destruct (parse f (Some o) ts0) as [[e r']|] eqn:E; [|discriminate]. rewrite (IHp _ _ _ E). now apply IHl.
    + destruct (stops last mulop); auto.
      destruct (parse f (Some mulop) (TGroup g :: ts0)) as [[e r']|] eqn:E; [|discriminate]. rewrite (IHp _ _ _ E). now apply IHl.
Qed.

Lemma mono_le f f' : f <= f' ->
  (forall last ts res, parse f last ts = Some res -> parse f' last ts = Some res) /\
  (forall ts res, next_expr f ts = Some res -> next_expr f' ts = Some res) /\
  (forall last ret ts res, loop f last ret ts = Some res -> loop f' last ret ts = Some res).
Proof.
  induction 1 as [|f' Hle (IHp & IHn & IHl)]; [repeat split; auto|].
  destruct (mono f') as (Mp & Mn & Ml). repeat split; intros; [apply Mp, IHp|apply Mn, IHn|apply Ml, IHl]; assumption.
Qed.

(* ---- precedence well-formedness ---- *)
Definition le_root (t : ast) (n : nat) := match t with Bin o _ _ _ => lvl o <= n | _ => True end.
Definition lt_root (t : ast) (n : nat) := match t with Bin o _ _ _ => lvl o < n | _ => True end.
Definition primary (t : ast) := match t with Bin _ _ _ _ => False | _ => True end.
Definition starts_group (t : ast) := match inorder t with TGroup _ :: _ => True | _ => False end.
Fixpoint wp (t : ast) : Prop :=
  match t with
  | Atom _ => True | Grp e => wp e | Un _ e => primary e /\ wp e
  | Bin o imp l r => wp l /\ wp r /\ le_root l (lvl o) /\ lt_root r (lvl o) /\
                     (imp = true -> o = mulop /\ starts_group r)
  end.
Definition lt_last (t : ast) (last : option nat) := match last with None => True | Some l => lt_root t (lvl l) end.
Definition stop_ok (last : option nat) (rest : list tok) :=
  match rest with [] => True | TOp o :: _ => stops last o = true | TGroup _ :: _ => stops last mulop = true | _ => False end.
Definition cont_ok (t : ast) (rest : list tok) := match t with Bin o _ _ _ => stop_ok (Some o) rest | _ => True end.

Fixpoint cost (t : ast) : nat :=
  match t with Atom _ => 2 | Un _ e => S (S (cost e)) | Grp e => S (S (S (cost e))) | Bin _ _ l r => cost l + cost r + 3 end.

Lemma cost_ge t : 2 <= cost t.
Proof. induction t; simpl; lia. Qed.

Lemma loop_stop f last t rest : stop_ok last rest -> last <> None \/ rest = [] -> loop (S f) last t rest = Some (t, rest).
Proof.
  intros Hs Hl. cbn [loop]. destruct rest as [|[a|o|m|g] rest]; try reflexivity; try (now destruct Hs).
  - simpl in Hs. now rewrite Hs.
  - simpl in Hs. now rewrite Hs.
Qed.

(* completeness, mutually for primaries (next_expr) and arbitrary trees (parse/loop) *)
Lemma complete t : wp t ->
  (primary t -> forall f rest, cost t <= S f -> next_expr f (inorder t ++ rest) = Some (t, rest)) /\
  (forall last rest f res, lt_last t last -> cont_ok t rest ->
      loop f last t rest = Some res -> parse (f + cost t) last (inorder t ++ rest) = Some res).
Proof.
  induction t as [a | m e IHe | o imp l IHl r IHr | e IHe]; intros Hwp.
  - (* Atom *) split.
    + intros _ f rest Hf. destruct f; [simpl in Hf; lia|]. reflexivity.
    + intros last rest f res _ _ H. replace (f + cost (Atom a)) with (S (S f)) by (simpl; lia).
      cbn [parse inorder app]. cbn [next_expr]. destruct (mono_le f (S f) (le_S _ _ (le_n _))) as (_ & _ & Ml). now apply Ml.
  - (* Un *) destruct Hwp as (Hpe & Hwe). destruct (IHe Hwe) as (IHn & _). split.
    + intros _ f rest Hf. pose proof (cost_ge e). destruct f; [simpl in Hf; lia|]. cbn [inorder app next_expr].
      rewrite IHn; [reflexivity|assumption|simpl in Hf; lia].
    + intros last rest f res _ _ H. replace (f + cost (Un m e)) with (S (S (f + cost e))) by (simpl; lia).
      cbn [parse inorder app]. cbn [next_expr]. rewrite IHn; [|assumption|lia].
      destruct (mono_le f (S (f + cost e))) as (_ & _ & Ml); [lia|]. now apply Ml.
  - (* Bin *) destruct Hwp as (Hwl & Hwr & Hle & Hlt & Himp).
    destruct (IHl Hwl) as (_ & IHlp). destruct (IHr Hwr) as (_ & IHrp).
    split; [intros []|].
    intros last rest f res Hlast Hcont H.
    (* parse of r under last = Some o returns (r, rest) *)
    assert (Hr : parse (S (cost r)) (Some o) (inorder r ++ rest) = Some (r, rest)).
    { replace (S (cost r)) with (1 + cost r) by lia. apply IHrp; [exact Hlt| |].
      - destruct r as [| | o2 i2 l2 r2|]; simpl; auto. simpl in Hlt. simpl in Hcont.
        destruct rest as [|[a|o'|m'|g'] rest']; simpl in *; auto; apply Nat.leb_le in Hcont; apply Nat.leb_le; lia.
      - apply loop_stop; [exact Hcont|left; discriminate]. }
    (* one loop step from l *)
    set (F := f + S (cost r)).
    assert (Hstep : loop (S F) last l ((if imp then [] else [TOp o]) ++ inorder r ++ rest) = Some res).
    { assert (Hns : stops last o = false).
      { destruct last as [l0|]; [|reflexivity]. simpl in Hlast. simpl. apply Nat.leb_gt. exact Hlast. }
      destruct (mono_le (S (cost r)) F) as (Mp & _ & _); [unfold F; lia|].
      destruct (mono_le f F) as (_ & _ & Ml); [unfold F; lia|].
      destruct imp.
      - destruct (Himp eq_refl) as (-> & Hsg). unfold starts_group in Hsg.
        cbn [app]. destruct (inorder r) as [|[a|o'|m'|g'] ir] eqn:Eir; try contradiction.
        cbn [app] in Hr. cbn [app]. rewrite loop_S, Hns. rewrite (Mp _ _ _ Hr). now apply Ml.
      - cbn [app]. rewrite loop_S, Hns. rewrite (Mp _ _ _ Hr). now apply Ml. }
    destruct (mono_le (S F + cost l) (f + cost (Bin o imp l r))) as (Mp' & _ & _); [unfold F; simpl; lia|]. apply Mp'.
    cbn [inorder]. rewrite <- !app_assoc. apply IHlp; [| |exact Hstep].
    + destruct last as [l0|]; [|exact I]. simpl in *. destruct l; simpl in *; auto. lia.
    + destruct l as [| | o1 i1 l1 r1|]; simpl; auto. simpl in Hle.
      destruct imp.
      * destruct (Himp eq_refl) as (-> & Hsg). unfold starts_group in Hsg. cbn [app].
        destruct (inorder r) as [|[a|o'|m'|g'] ir]; try contradiction. simpl. now apply Nat.leb_le.
      * simpl. now apply Nat.leb_le.
  - (* Grp *) simpl in Hwp. destruct (IHe Hwp) as (_ & IHp).
    assert (He : forall f, cost e <= f -> parse (S f) None (inorder e) = Some (e, [])).
    { intros f Hf. pose proof (IHp None [] 1 (e, []) I) as H. rewrite app_nil_r in H.
      destruct (mono_le (1 + cost e) (S f)) as (Mp & _ & _); [lia|]. apply Mp. apply H.
      - destruct e; simpl; auto.
      - apply loop_stop; [exact I|now right]. }
    split.
    + intros _ f rest Hf. destruct f; [simpl in Hf; lia|]. cbn [inorder app next_expr].
      destruct f; [simpl in Hf; lia|]. rewrite He by (simpl in Hf; lia). reflexivity.
    + intros last rest f res _ _ H. replace (f + cost (Grp e)) with (S (S (S (f + cost e)))) by (simpl; lia).
      cbn [parse inorder app]. cbn [next_expr]. rewrite He by lia.
      destruct (mono_le f (S (S (f + cost e)))) as (_ & _ & Ml); [lia|]. now apply Ml.
Qed.

Theorem parse_complete t : wp t -> parse (S (cost t)) None (inorder t) = Some (t, []).
Proof.
  intros Hwp. destruct (complete t Hwp) as (_ & Hp).
  pose proof (Hp None [] 1 (t, []) I) as H. rewrite app_nil_r in H. apply H.
  - destruct t; simpl; auto.
  - apply loop_stop; [exact I|now right].
Qed.

(* ---- soundness of the precedence structure ---- *)
Definition head_ok (ret : ast) (ts : list tok) :=
  match ts with TOp o :: _ => le_root ret (lvl o) | TGroup _ :: _ => le_root ret (lvl mulop) | _ => True end.

Lemma inorder_nonempty t : inorder t <> [].
Proof. induction t; simpl; try discriminate. destruct (inorder t1); [contradiction|discriminate]. Qed.

Lemma wp_sound fuel :
  (forall last ts t r, parse fuel last ts = Some (t, r) -> wp t /\ lt_last t last /\ stop_ok last r) /\
  (forall ts t r, next_expr fuel ts = Some (t, r) -> wp t /\ primary t) /\
  (forall last ret ts t r, loop fuel last ret ts = Some (t, r) -> wp ret -> lt_last ret last -> head_ok ret ts ->
                           wp t /\ lt_last t last /\ stop_ok last r).
Proof.
  induction fuel as [|f (IHp & IHn & IHl)]; [repeat split; intros; discriminate|].
  split; [|split].
  - intros last ts t r H. rewrite parse_S in H. destruct ts as [|t0 ts0]; [discriminate|].
    destruct (next_expr f (t0 :: ts0)) as [[e r0]|] eqn:E; [|discriminate].
    destruct (IHn _ _ _ E) as (Hwe & Hpe). apply IHl in H; auto.
    + destruct last; simpl; auto. destruct e; simpl in *; auto. contradiction.
    + destruct r0 as [|[a|o|m|g] r0]; simpl; auto; destruct e; simpl in *; auto; contradiction.
  - intros ts t r H. rewrite next_S in H. destruct ts as [|[a|o|m|g] ts0]; try discriminate.
    + inversion H; subst. simpl. auto.
    + destruct (next_expr f ts0) as [[e r']|] eqn:E; [|discriminate]. inversion H; subst.
      destruct (IHn _ _ _ E). simpl. auto.
    + destruct (parse f None g) as [[e [|x xs]]|] eqn:E; try discriminate. inversion H; subst.
      destruct (IHp _ _ _ _ E) as (Hw & _). simpl. auto.
  - intros last ret ts t r H Hwr Hlr Hh. rewrite loop_S in H. destruct ts as [|[a|o|m|g] ts0]; try discriminate.
    + inversion H; subst. simpl. auto.
    + destruct (stops last o) eqn:Es; [inversion H; subst; simpl; auto|].
      destruct (parse f (Some o) ts0) as [[e r']|] eqn:E; [|discriminate].
      destruct (IHp _ _ _ _ E) as (Hwe & Hle & Hst). simpl in Hle.
      apply IHl in H; auto.
      * simpl. repeat split; auto; discriminate.
      * destruct last as [l0|]; simpl; auto. simpl in Es. apply Nat.leb_gt in Es. exact Es.
      * destruct r' as [|[a'|o'|m'|g'] r'']; simpl in *; auto; now apply Nat.leb_le.
    + destruct (stops last mulop) eqn:Es; [inversion H; subst; simpl; auto|].
      destruct (parse f (Some mulop) (TGroup g :: ts0)) as [[e r']|] eqn:E; [|discriminate].
      destruct (IHp _ _ _ _ E) as (Hwe & Hle & Hst). simpl in Hle.
      destruct (sound f) as (Sp & _ & _). pose proof (Sp _ _ _ _ E) as Hin.
      apply IHl in H; auto.
      * simpl. repeat split; auto. unfold starts_group.
        pose proof (inorder_nonempty e). destruct (inorder e) as [|x xs]; [contradiction|].
        simpl in Hin. inversion Hin; subst. exact I.
      * destruct last as [l0|]; simpl; auto. simpl in Es. apply Nat.leb_gt in Es. exact Es.
      * destruct r' as [|[a'|o'|m'|g'] r'']; simpl in *; auto; now apply Nat.leb_le.
Qed.

Theorem parse_sound fuel ts t : parse fuel None ts = Some (t, []) -> inorder t = ts /\ wp t.
Proof.
  intros H. destruct (sound fuel) as (Sp & _ & _). destruct (wp_sound fuel) as (Wp & _ & _).
  pose proof (Sp _ _ _ _ H) as E. rewrite app_nil_r in E. destruct (Wp _ _ _ _ H) as (Hw & _). auto.
Qed.

(* uniqueness of the parse under the order of operations *)
Corollary wp_unique t1 t2 : wp t1 -> wp t2 -> inorder t1 = inorder t2 -> t1 = t2.
Proof.
  intros H1 H2 E. pose proof (parse_complete t1 H1) as P1. pose proof (parse_complete t2 H2) as P2.
  rewrite E in P1.
  destruct (mono_le (S (cost t1)) (S (cost t1) + S (cost t2))) as (M1 & _ & _); [lia|].
  destruct (mono_le (S (cost t2)) (S (cost t1) + S (cost t2))) as (M2 & _ & _); [lia|].
  apply M1 in P1. apply M2 in P2. rewrite P1 in P2. now inversion P2.
Qed.
End P.
Check parse_complete.
Check parse_sound.
Check wp_unique.
Print Assumptions wp_unique.
Print Assumptions parse_complete.
