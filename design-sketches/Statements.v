(* Design-phase artefact: the property theorems as *typed statements*.
   Model functions are Section variables here (no axioms: everything is a
   Definition of a Prop, closed over the variables); in the development they
   become the definitions of coq/Model/*.v and each [Cxx_*] below becomes a
   Theorem in coq/Props/Cxx.v.  This file must compile:  coqc Statements.v   *)

From Coq Require Import List NArith ZArith QArith Lia Bool Permutation Sorted.
Import ListNotations.
Open Scope nat_scope.

Definition str := list N.                 (* bytes, or code points where noted *)
Inductive result (A : Type) := Ok (a : A) | Panic.
Arguments Ok {A} a. Arguments Panic {A}.
Definition bytes_ok (s : str) := Forall (fun b => (b < 256)%N) s.

(* ------------------------------------------------------------------ C04 *)
Section C04.
  Inductive rerr := RNil | REof | RErr.
  Definition script := list (nat * rerr).
  Definition token := (nat * nat * nat)%type.         (* block, lo, hi *)
  Definition heapT := list (list N).
  Variable st : Type.
  Variable init : nat -> script -> str -> st.          (* bufSize, reader script, stream *)
  Variable scan : st -> option (option token * st).    (* None = reader returns (0,nil) forever *)
  Variable heap : st -> heapT.
  Variable nerr : st -> nat.
  Variable reads_after_error : st -> nat.
  Variable read_tok : heapT -> token -> str.
  Variable lines_spec : str -> list str.
  (* bytes the scripted reader hands over up to and including its first error *)
  Variable delivered : nat -> script -> str -> str.
  Variable script_errs : nat -> script -> str -> bool.  (* hits RErr before REof/end *)

  (* all (token, state-right-after-return) pairs of a complete run *)
  Inductive run : st -> list (token * st) -> st -> Prop :=
  | run_end s s' : scan s = Some (None, s') -> run s [] s'
  | run_tok s t s' ts sf : scan s = Some (Some t, s') -> run s' ts sf -> run s ((t, s') :: ts) sf.

  Definition C04_lines_exact := forall bs sc stream ts sf, bs >= 1 ->
    run (init bs sc stream) ts sf ->
    map (fun p => read_tok (heap (snd p)) (fst p)) ts = lines_spec (delivered bs sc stream).
  Definition C04_tokens_stable := forall bs sc stream ts sf, bs >= 1 ->
    run (init bs sc stream) ts sf ->
    forall t s', In (t, s') ts -> read_tok (heap sf) t = read_tok (heap s') t.
  Definition C04_error_once := forall bs sc stream ts sf, bs >= 1 ->
    run (init bs sc stream) ts sf ->
    nerr sf = (if script_errs bs sc stream then 1 else 0) /\ reads_after_error sf = 0.
  (* a complete run exists whenever the script eventually reports an error/EOF
     (past its end the reader answers (0,EOF)), so the statements are not vacuous *)
  Definition C04_run_exists := forall bs sc stream, bs >= 1 ->
    exists ts sf, run (init bs sc stream) ts sf.
End C04.

(* ------------------------------------------------------------ C01 / C02 *)
Section C01.
  Variables (L K : Type).                               (* line, key *)
  Inductive cls := Unm | Ign | Mat (k : K).
  Variable classify : L -> cls.
  Variable cut : nat -> list bool -> list L -> list (nat * list L).   (* batch, flush oracle *)
  Definition C01_cut_concat := forall b f ls, b >= 1 -> concat (map snd (cut b f ls)) = ls.
  Definition C01_cut_nonempty := forall b f ls, b >= 1 -> Forall (fun p => snd p <> []) (cut b f ls).
  Fixpoint starts_ok (n : nat) (bs : list (nat * list L)) : Prop :=
    match bs with [] => True | (s, l) :: r => s = n /\ starts_ok (n + length l) r end.
  Definition C02_cut_starts := forall b f ls, b >= 1 -> starts_ok 1 (cut b f ls).

  Record cfg := { batch : nat; workers : nat; readers : nat; buffer : nat }.
  Definition cfg_ok c := batch c >= 1 /\ workers c >= 1 /\ readers c >= 1 /\ buffer c >= 1.
  (* per source: (opens?, ends in a read error?), flush oracle, lines delivered before EOF/error *)
  Definition input := list ((bool * bool) * list bool * list L).
  Variable state : Type.
  Variable init : cfg -> input -> state.
  Variable step : cfg -> state -> state -> Prop.
  Variable consumed : state -> list (nat * nat * L * K).  (* source, line number, line, key *)
  Variables cR cM cI cErr : state -> nat.
  Inductive reach (c : cfg) (i : input) : state -> Prop :=
  | reach0 : reach c i (init c i)
  | reachS s s' : reach c i s -> step c s s' -> reach c i s'.
  Definition terminal c s := forall s', ~ step c s s'.
  Variable finished : state -> Prop.                   (* every thread at its final pc *)

  Definition lines_of (i : input) : list L :=
    flat_map (fun x => match x with ((true, _), _, ls) => ls | _ => [] end) i.
  Definition count_cls (p : cls -> bool) (ls : list L) := length (filter (fun l => p (classify l)) ls).
  Definition seq_keys (ls : list L) : list K :=
    flat_map (fun l => match classify l with Mat k => [k] | _ => [] end) ls.

  Definition C01_final := forall c i s, cfg_ok c -> reach c i s -> terminal c s ->
    finished s /\
    cR s = length (lines_of i) /\
    cM s = count_cls (fun x => match x with Mat _ => true | _ => false end) (lines_of i) /\
    cI s = count_cls (fun x => match x with Ign => true | _ => false end) (lines_of i) /\
    cErr s = length (filter (fun x => let '(o, e) := fst (fst x) in negb o || e) i) /\
    Permutation (map snd (consumed s)) (seq_keys (lines_of i)).
  Definition C01_progress := forall c i s, cfg_ok c -> reach c i s -> ~ finished s -> exists s', step c s s'.
  Variable measure : state -> nat.
  Definition C01_terminates := forall c i s s', cfg_ok c -> reach c i s -> step c s s' -> measure s' < measure s.
  Definition C02_line_numbers := forall c i s, cfg_ok c -> reach c i s ->
    forall src n l k, In (src, n, l, k) (consumed s) ->
      exists o f ls, nth_error i src = Some (o, f, ls) /\ fst o = true /\ n >= 1 /\
                     nth_error ls (n - 1) = Some l /\ classify l = Mat k.
  Definition C02_order_1x1 := forall c o f ls s, cfg_ok c -> workers c = 1 ->
    reach c [(o, f, ls)] s -> terminal c s -> map snd (consumed s) = seq_keys (if fst o then ls else []).
End C01.

Section C02ctx.
  Variable get_match : str -> list Z -> Z -> result str.
  Definition valid_idxs (l : str) (ix : list Z) :=
    Nat.even (length ix) = true /\
    forall k, (2 * k + 1 < length ix) ->
      let s := nth (2 * k) ix 0%Z in let e := nth (2 * k + 1) ix 0%Z in
      (s = (-1)%Z /\ e = (-1)%Z) \/ (0 <= s <= e /\ e <= Z.of_nat (length l))%Z.
  Definition sub (l : str) (s e : Z) := firstn (Z.to_nat (e - s)) (skipn (Z.to_nat s) l).
  Definition C02_groups := forall l ix i, valid_idxs l ix ->
    get_match l ix i =
    Ok (if (0 <=? i)%Z && (2 * Z.to_nat i + 1 <? length ix) && (0 <=? nth (2 * Z.to_nat i) ix 0)%Z
        then sub l (nth (2 * Z.to_nat i) ix 0%Z) (nth (2 * Z.to_nat i + 1) ix 0%Z) else []).
  Variables (wrap_indices : str -> list Z -> result str) (strip_sgr : str -> str).
  Definition C02_filter_identity := forall l ix, ~ In 27%N l -> valid_idxs l ix ->
    exists w, wrap_indices l ix = Ok w /\ strip_sgr w = l.
End C02ctx.

(* ------------------------------------------------------------------ C07 *)
Section C07.
  Variable counter : Type.
  Variables (c0 : counter) (c_sample : counter -> str -> counter).
  Variables (c_count : counter -> str -> Z) (c_total : counter -> Z) (c_errors : counter -> nat).
  Variable c_keys : counter -> list str.
  (* reference reading of one sample: key, increment or parse error *)
  Variable parse_sample : str -> (str * option Z).       (* None = non-integer increment *)
  Definition spec_count (h : list str) (k : str) : Z :=
    fold_left (fun a e => match parse_sample e with
                          | (k', Some z) => if list_eq_dec N.eq_dec k k' then (a + z)%Z else a
                          | _ => a end) h 0%Z.
  Definition C07_counter_fold := forall h k,
    c_count (fold_left c_sample h c0) k = spec_count h k.
  Definition C07_counter_errors := forall h,
    c_errors (fold_left c_sample h c0) = length (filter (fun e => match snd (parse_sample e) with None => true | _ => false end) h).
  Definition C07_counter_perm := forall h1 h2 k, Permutation h1 h2 ->
    c_count (fold_left c_sample h1 c0) k = c_count (fold_left c_sample h2 c0) k.

  (* sub-key counter: representation invariant *)
  Variable sk : Type.
  Variables (sk0 : sk) (sk_sample : sk -> str -> sk).
  Variables (sk_subkeys : sk -> list str) (sk_rows : sk -> list (str * (Z * list Z))).
  Variable str_lt : str -> str -> Prop.
  Definition C07_subkey_inv := forall h, let s := fold_left sk_sample h sk0 in
    StronglySorted str_lt (sk_subkeys s) /\
    Forall (fun r => length (snd (snd r)) = length (sk_subkeys s) /\
                     fst (snd r) = fold_right Z.add 0%Z (snd (snd r))) (sk_rows s).

  (* Welford over exact rationals *)
  Record wf := { wn : nat; wmean : Q; wm2 : Q }.
  Variable w_sample : wf -> Q -> wf.
  Definition qsum (l : list Q) := fold_right Qplus 0%Q l.
  Definition C07_welford := forall xs, xs <> [] ->
    let w := fold_left w_sample xs {| wn := 0; wmean := 0%Q; wm2 := 0%Q |} in
    wn w = length xs /\
    (wmean w == qsum xs / inject_Z (Z.of_nat (length xs)))%Q /\
    (wm2 w == qsum (map (fun x => (x - wmean w) * (x - wmean w))%Q xs))%Q.
End C07.

(* ---------------------------------------------------- C08 / C09 / C10 *)
Section Tmpl.
  Inductive piece := PLit (s : str) | PMatch (i : Z) | PKey (k : str) | PCall (f : str) (args : list (list piece)).
  Definition tmpl := list piece.
  Inductive cerr := EUnterminated | EEmpty | EMissingFn | EFunc.
  Variable fnames : Type.
  Variable compile : fnames -> str -> result (tmpl * list (cerr * nat)).
  Definition C08_compile_total := forall fs t, compile fs t <> Panic.

  Variable esc : str -> str.
  Definition C09_escape_roundtrip := forall fs s,
    compile fs (esc s) = Ok ((match s with [] => [] | _ => [PLit s] end), []).
  Variable layout : Type.
  Variables (printable : tmpl -> Prop) (admissible : layout -> tmpl -> Prop).
  Variables (print : layout -> tmpl -> str) (norm : tmpl -> tmpl).
  Variable knows : fnames -> tmpl -> Prop.              (* every called function is registered *)
  Definition C09_print_parse := forall fs d t, printable t -> admissible d t -> knows fs t ->
    compile fs (print d t) = Ok (norm t, []).

  (* effects: the free monad of context look-ups *)
  Inductive M (A : Type) :=
  | Ret (a : A) | GetMatch (i : Z) (k : str -> M A) | GetKey (n : str) (k : str -> M A) | Now (k : Z -> M A).
  Arguments Ret {A}. Arguments GetMatch {A}. Arguments GetKey {A}. Arguments Now {A}.
  Record ctx := { cm : Z -> str; ck : str -> str }.
  Fixpoint runM {A} (m : M A) (c : ctx) (clk : Z) : A * nat :=
    match m with
    | Ret a => (a, 0)
    | GetMatch i k => let (a, n) := runM (k (cm c i)) c clk in (a, S n)
    | GetKey s k => let (a, n) := runM (k (ck c s)) c clk in (a, S n)
    | Now k => runM (k clk) c clk
    end.
  Definition monitor := {| cm := fun _ => []; ck := fun _ => [] |}.
  Variable eval : bool (* optimise *) -> tmpl -> M (result str).
  Definition C10_optimize_sound := forall t c clk,
    fst (runM (eval true t) c clk) = fst (runM (eval false t) c clk).
  Variable modelled : tmpl -> Prop.
  Definition C08_eval_total := forall o t c clk, modelled t -> fst (runM (eval o t) c clk) <> Panic.
  (* user functions *)
  Variable subst_args : tmpl -> list tmpl -> tmpl.
  Variable eval_with : list (str * tmpl) -> tmpl -> M (result str).   (* user definitions in scope *)
  Definition C10_call_inline := forall defs f body args c clk,
    In (f, body) defs ->
    fst (runM (eval_with defs [PCall f args]) c clk) = fst (runM (eval_with defs (subst_args body args)) c clk).
  Variables (load_defs : list str -> list (str * str) * nat) (layout_defs : Type)
            (render_defs : layout_defs -> list (str * str) -> list str) (defs_ok : list (str * str) -> Prop).
  Definition C10_loader_layout := forall L defs, defs_ok defs -> load_defs (render_defs L defs) = (defs, 0).
End Tmpl.

(* the one lemma that makes C10 structural; proved here because it is two lines *)
Lemma static_is_constant {A} (m : M A) c clk :
  snd (runM m monitor clk) = 0 -> forall c', fst (runM m c' clk) = fst (runM m c clk).
Proof.
  induction m as [a | i k IH | s k IH | k IH]; simpl; intros H c'.
  - reflexivity.
  - destruct (runM (k []) monitor clk); discriminate.
  - destruct (runM (k []) monitor clk); discriminate.
  - apply IH, H.
Qed.

(* ------------------------------------------------------------------ C11 *)
Section C11.
  Open Scope Z_scope.
  Definition min64 := - 2 ^ 63. Definition max64 := 2 ^ 63 - 1.
  Variable bucket : Z -> Z -> Z.
  Definition C11_bucket_law := forall v s, 0 < s -> min64 + s <= v <= max64 -> s <= max64 ->
    let b := bucket v s in (s | b) /\ b <= v < b + s.
  Variable clamp : Z -> Z -> Z -> option Z.            (* None = "min"/"max" word *)
  Definition C11_clamp_law := forall v lo hi, clamp v lo hi = Some v <-> lo <= v <= hi.
  Variables (hi_ : Z -> str) (format_int : Z -> str).
  Definition comma := 44%N.
  Definition strip_commas (s : str) := filter (fun b => negb (N.eqb b comma)) s.
  Definition C11_hi_law := forall n, min64 <= n <= max64 -> strip_commas (hi_ n) = format_int n.
  Variables (csv_row : list str -> str) (csv_parse_row : str -> option (list str)).
  Definition C11_csv_roundtrip := forall args, args <> [] -> Forall bytes_ok args ->
    csv_parse_row (csv_row args) = Some args.
End C11.

(* ------------------------------------------------------------------ C12 *)
Section C12.
  Variable dissect : Type.
  Variable dcompile : bool -> str -> option dissect.     (* ignore-case?, pattern *)
  Variable find : dissect -> str -> option (list Z).
  Variable lower : str -> str.                            (* the byte map used on BOTH sides *)
  Definition ascii (s : str) := Forall (fun b => (b < 128)%N) s.
  Definition C12_ic_monotone := forall p l d di,
    dcompile false p = Some d -> dcompile true p = Some di ->
    find d l <> None -> find di l <> None.
  Definition C12_ic_ascii := forall p l di dl, ascii p -> ascii l ->
    dcompile true p = Some di -> dcompile false (lower p) = Some dl ->
    find di l = find dl (lower l).
  Fixpoint nondecreasing (z : list Z) : Prop :=
    match z with a :: ((b :: _) as r) => (a <= b)%Z /\ nondecreasing r | _ => True end.
  Definition C12_offsets_ordered := forall ic p d l r, dcompile ic p = Some d -> find d l = Some r ->
    match r with
    | r0 :: r1 :: groups => (0 <= r0)%Z /\ nondecreasing (r0 :: groups ++ [r1]) /\ (r1 <= Z.of_nat (length l))%Z
    | _ => False end.
End C12.

(* ------------------------------------------------------------------ C13 *)
Section C13.
  Variable key : Type.
  Definition strict_total_on (less : key -> key -> bool) (l : list key) :=
    (forall a, In a l -> less a a = false) /\
    (forall a b c, In a l -> In b l -> In c l -> less a b = true -> less b c = true -> less a c = true) /\
    (forall a b, In a l -> In b l -> a <> b -> less a b = true \/ less b a = true).
  Definition sorted_by (less : key -> key -> bool) := StronglySorted (fun a b => less a b = true).
  Definition C13_sorted_perm_unique := forall less l l1 l2, NoDup l -> strict_total_on less l ->
    Permutation l l1 -> Permutation l l2 -> sorted_by less l1 -> sorted_by less l2 -> l1 = l2.
  Definition C13_reverse := forall less l l1, NoDup l -> strict_total_on less l ->
    Permutation l l1 -> sorted_by less l1 -> sorted_by (fun a b => negb (less a b)) (rev l1).
End C13.

(* ------------------------------------------------------------------ C14 *)
Section C14.
  Local Open Scope Q_scope.
  Variable mapv : Q -> Q.
  Hypothesis map_mono : forall a b, a <= b -> mapv a <= mapv b.
  Variable scale : (Q -> Q) -> Z -> Z -> Z -> Q.
  Definition C14_scale_unit := forall v mn mx, 0 <= scale mapv v mn mx /\ scale mapv v mn mx <= 1.
  Definition C14_scale_mono := forall v v' mn mx, (v <= v')%Z -> scale mapv v mn mx <= scale mapv v' mn mx.
  Variable bucketn : Z -> Q -> Z.
  Definition C14_bucket_range := forall n u, (1 <= n)%Z -> 0 <= u -> u <= 1 -> (0 <= bucketn n u <= n - 1)%Z.
End C14.

(* ------------------------------------------------------------------ C16 *)
Section C16.
  Inductive jval := JStr (s : str) | JNum (lit : str) | JBool (b : bool).
  Variable json_view : bool -> bool -> list (str * Z) (* name table, in the order iterated *) ->
                       str -> list Z -> str.
  Variable json_parse : str -> option (list (str * jval)).
  Variable member_ok : str (* group text *) -> jval -> Prop.  (* same text / equal number / same bool *)
  Variable expected_members : bool -> bool -> list (str * Z) -> str -> list Z -> list (str * str).
  Definition C16_valid_faithful := forall nm nb tbl l ix, bytes_ok l ->
    exists ms, json_parse (json_view nm nb tbl l ix) = Some ms /\
      Forall2 (fun e m => fst e = fst m /\ member_ok (snd e) (snd m)) (expected_members nm nb tbl l ix) ms.
  Definition C16_deterministic := forall nm nb tbl tbl' l ix, Permutation tbl tbl' ->
    json_view nm nb tbl l ix = json_view nm nb tbl' l ix.
End C16.

(* ------------------------------------------------------------------ C17 *)
Section C17.
  Variables (splitd : str -> str -> list str) (joind : str -> list str -> str).
  Variable occurs : str -> str -> Prop.                  (* needle occurs in hay *)
  Definition C17_join_split := forall d s, d <> [] -> joind d (splitd d s) = s.
  Definition C17_split_join := forall d l, d <> [] -> l <> [] -> Forall (fun e => ~ occurs d e) l ->
    splitd d (joind d l) = l.
  Variable slice : list str -> Z -> option Z -> list str.
  Definition C17_slice := forall l st ln,
    let n := Z.of_nat (length l) in
    let st' := if (st <? 0)%Z then Z.max 0 (st + n) else st in
    slice l st ln = match ln with
                    | None => skipn (Z.to_nat st') l
                    | Some k => if (k <? 0)%Z then skipn (Z.to_nat st') l
                                else firstn (Z.to_nat k) (skipn (Z.to_nat st') l) end.
End C17.

(* ------------------------------------------------------------------ C18 *)
Section C18.
  Open Scope Z_scope.
  Variables (civil_from_days : Z -> Z * Z * Z) (days_from_civil : Z -> Z -> Z -> Z).
  Definition C18_civil_inverse := forall z, let '(y, m, d) := civil_from_days z in
    days_from_civil y m d = z /\ 1 <= m <= 12 /\ 1 <= d <= 31.
  Variable quarter : Z -> Z.                              (* of month 1..12 *)
  Definition C18_quarter := forall m, 1 <= m <= 12 ->
    1 <= quarter m <= 4 /\ (quarter m = 1 <-> m <= 3) /\ (quarter m = 4 <-> 10 <= m).
  Variable layoutT : Type.
  Variables (fmt : layoutT -> Z (* unix s *) -> Z (* offset s *) -> str)
            (prs : layoutT -> str -> option (Z * Z)) (full : layoutT -> Prop).
  Definition C18_roundtrip := forall L t off, full L -> -50400 <= off <= 50400 -> off mod 60 = 0 ->
    0 <= t < 4102444800 -> prs L (fmt L t off) = Some (t, off).
End C18.

(* ------------------------------------------------------------------ C19 *)
Section C19.
  Inductive tok := TAtom (a : nat) | TOp (o : nat) | TMod (m : nat) | TGroup (g : list tok).
  Inductive ast := Atom (a : nat) | Un (m : nat) (e : ast) | Bin (o : nat) (implied : bool) (l r : ast) | Grp (e : ast).
  Variable lvl : nat -> nat.                              (* from GenMathOps; smaller binds tighter *)
  Variable mulop : nat.
  Variable parse : list tok -> result (option ast).        (* Ok None = compile error *)
  Fixpoint inorder (t : ast) : list tok :=
    match t with
    | Atom a => [TAtom a] | Un m e => TMod m :: inorder e | Grp e => [TGroup (inorder e)]
    | Bin o imp l r => inorder l ++ (if imp then [] else [TOp o]) ++ inorder r
    end.
  Definition root (t : ast) : option nat := match t with Bin o _ _ _ => Some (lvl o) | _ => None end.
  Definition primary (t : ast) := match t with Bin _ _ _ _ => False | _ => True end.
  Fixpoint well_prec (t : ast) : Prop :=
    match t with
    | Atom _ => True | Grp e => well_prec e | Un _ e => primary e /\ well_prec e
    | Bin o imp l r => well_prec l /\ well_prec r /\
        (match root l with Some a => a <= lvl o | None => True end) /\
        (match root r with Some a => a < lvl o | None => True end) /\
        (imp = true -> o = mulop /\ match inorder r with TGroup _ :: _ => True | _ => False end)
    end.
  Definition C19_parse_total := forall ts, parse ts <> Panic.
  Definition C19_parse_sound := forall ts t, parse ts = Ok (Some t) -> inorder t = ts /\ well_prec t.
  Definition C19_parse_complete := forall t, well_prec t -> parse (inorder t) = Ok (Some t).
End C19.

(* ------------------------------------------------------------------ C20 *)
Section C20.
  Inductive cmd := Text (s : str) | LF | CR | Up (n : nat) | EraseEOL | HideCur | ShowCur.
  Record screen := { rows : list str; crow : nat; ccol : nat; cvis : bool }.
  Variable interp : screen -> cmd -> screen.
  Variable emit : list (nat * str) -> list cmd.            (* updates followed by Close *)
  Variable last_write : list (nat * str) -> list str.      (* per line, "" for gaps *)
  Variable fits : nat -> str -> Prop.                      (* visible width <= cols, no control bytes but SGR *)
  Definition blank := {| rows := []; crow := 0; ccol := 0; cvis := true |}.
  Definition C20_screen_latest := forall cols ups, Forall (fun u => fits cols (snd u)) ups ->
    let s := fold_left interp (emit ups) blank in
    rows s = last_write ups /\ crow s = length (last_write ups) /\ ccol s = 0 /\ cvis s = true.
  Variables (trim : nat -> str -> str) (vis_len : str -> nat) (escapes_complete : str -> Prop).
  Definition is_prefix (a b : str) := exists r, b = a ++ r.
  Definition C20_trim := forall c s, c >= 1 -> is_prefix (trim c s) s /\ vis_len (trim c s) <= c /\
    (escapes_complete s -> escapes_complete (trim c s)).
End C20.
