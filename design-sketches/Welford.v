From Coq Require Import List QArith Qfield Lia ZArith.
Import ListNotations.
Open Scope Q_scope.

Record wf := mk { wn : nat; wmean : Q; wm2 : Q }.
Definition qn (n : nat) : Q := inject_Z (Z.of_nat n).
Definition w_sample (w : wf) (x : Q) : wf :=
  let n' := S (wn w) in
  let mean' := wmean w + (x - wmean w) / qn n' in
  mk n' mean' (wm2 w + (x - wmean w) * (x - mean')).
Definition w0 := mk 0 0 0.

Definition qsum (l : list Q) := fold_right Qplus 0 l.
Definition qsq (l : list Q) := fold_right (fun x a => x * x + a) 0 l.

Lemma qn_S n : qn (S n) == qn n + 1.
Proof. unfold qn. rewrite Nat2Z.inj_succ. unfold Z.succ. rewrite inject_Z_plus. reflexivity. Qed.
Lemma qn_pos n : ~ qn (S n) == 0.
Proof. unfold qn, Qeq. simpl. lia. Qed.

(* invariant in terms of running sums S (sum) and T (sum of squares) *)
Definition Inv (w : wf) (sm sq : Q) : Prop :=
  match wn w with
  | O => wmean w == 0 /\ wm2 w == 0 /\ sm == 0 /\ sq == 0
  | n => wmean w == sm / qn n /\ wm2 w == sq - sm * sm / qn n
  end.

Lemma step_inv w sm sq x : Inv w sm sq -> Inv (w_sample w x) (sm + x) (sq + x * x).
Proof.
  unfold Inv, w_sample. destruct (wn w) as [|n] eqn:En; cbn [wn wmean wm2].
  - intros (Hm & H2 & HS & HT). rewrite Hm, H2, HS, HT. split.
    + unfold qn. simpl. field.
    + unfold qn. simpl. field.
  - intros (Hm & H2). pose proof (qn_pos n) as Hn. pose proof (qn_pos (S n)) as Hn'.
    rewrite (qn_S (S n)) in *. split.
    + rewrite Hm. field. split; assumption.
    + rewrite H2, Hm. field. split; assumption.
Qed.

Lemma fold_inv xs : forall w sm sq, Inv w sm sq ->
  Inv (fold_left w_sample xs w) (sm + qsum xs) (sq + qsq xs).
Proof.
  induction xs as [|x xs IH]; intros w sm sq H; simpl.
  - unfold Inv in *. destruct (wn w).
    + destruct H as (A & B & C & D). repeat split; auto; rewrite ?C, ?D; ring.
    + destruct H as (A & B). split; [rewrite A|rewrite B]; field; apply qn_pos.
  - specialize (IH _ _ _ (step_inv w sm sq x H)).
    unfold Inv in *. destruct (wn (fold_left w_sample xs (w_sample w x))).
    + destruct IH as (A & B & C & D). repeat split; auto; [rewrite <- C|rewrite <- D]; ring.
    + destruct IH as (A & B). split; [rewrite A|rewrite B]; field; apply qn_pos.
Qed.

Lemma wn_fold xs : forall w, wn (fold_left w_sample xs w) = (length xs + wn w)%nat.
Proof. induction xs; intros; simpl; [reflexivity|]. rewrite IHxs. simpl. lia. Qed.

Theorem welford_mean_m2 xs : xs <> [] ->
  let w := fold_left w_sample xs w0 in
  wn w = length xs /\
  wmean w == qsum xs / qn (length xs) /\
  wm2 w == qsq xs - qsum xs * qsum xs / qn (length xs).
Proof.
  intros Hne w. assert (Hn : wn w = length xs) by (unfold w; rewrite wn_fold; simpl; lia).
  split; [exact Hn|].
  assert (H0 : Inv w0 0 0) by (unfold Inv; simpl; repeat split; reflexivity).
  pose proof (fold_inv xs w0 0 0 H0) as H. fold w in H. unfold Inv in H. rewrite Hn in H.
  destruct (length xs) as [|n] eqn:El; [destruct xs; simpl in *; congruence|].
  destruct H as (A & B). split; [rewrite A|rewrite B]; field; apply qn_pos.
Qed.
Print Assumptions welford_mean_m2.
