From Coq Require Import List ZArith Lia Bool.
Import ListNotations.
Open Scope Z_scope.

(* Howard Hinnant's algorithms, all on Z with floor division (Z.div) *)
Definition days_from_civil (y m d : Z) : Z :=
  let y := if m <=? 2 then y - 1 else y in
  let era := y / 400 in
  let yoe := y - era * 400 in
  let doy := (153 * (if m >? 2 then m - 3 else m + 9) + 2) / 5 + d - 1 in
  let doe := yoe * 365 + yoe / 4 - yoe / 100 + doy in
  era * 146097 + doe - 719468.

Definition civil_from_days (z : Z) : Z * Z * Z :=
  let z := z + 719468 in
  let era := z / 146097 in
  let doe := z - era * 146097 in
  let yoe := (doe - doe / 1460 + doe / 36524 - doe / 146096) / 365 in
  let y := yoe + era * 400 in
  let doy := doe - (365 * yoe + yoe / 4 - yoe / 100) in
  let mp := (5 * doy + 2) / 153 in
  let d := doy - (153 * mp + 2) / 5 + 1 in
  let m := if mp <? 10 then mp + 3 else mp - 9 in
  (if m <=? 2 then y + 1 else y, m, d).

Definition rt (z : Z) : bool :=
  let '(y, m, d) := civil_from_days z in
  (days_from_civil y m d =? z) && (1 <=? m) && (m <=? 12) && (1 <=? d) && (d <=? 31).


Definition all_range (start : Z) (n : N) (f : Z -> bool) : bool :=
  snd (N.iter n (fun p => (fst p + 1, snd p && f (fst p))) (start, true)).
Lemma sweep : all_range (-719468) 146097 rt = true.
Proof. vm_compute. reflexivity. Qed.
Eval vm_compute in civil_from_days 0.
Eval vm_compute in civil_from_days 18321.
