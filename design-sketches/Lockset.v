From Coq Require Import List Arith Lia Bool.
Import ListNotations.

Definition thread := nat. Definition mutex := nat. Definition loc := nat.
Inductive ev :=
| Acq (t : thread) (m : mutex) | Rel (t : thread) (m : mutex)
| Acc (t : thread) (x : loc) (w atomic : bool)
| Fork (t t' : thread).
Definition thr (e : ev) : thread := match e with Acq t _ | Rel t _ | Acc t _ _ _ | Fork t _ => t end.

Definition hstate := mutex -> option thread.
Definition step_h (h : hstate) (e : ev) : hstate :=
  match e with
  | Acq t m => fun m' => if m' =? m then Some t else h m'
  | Rel t m => fun m' => if m' =? m then None else h m'
  | _ => h
  end.
Definition holder (tr : list ev) : hstate := fold_left step_h tr (fun _ => None).

Definition wf (tr : list ev) : Prop :=
  forall i e, nth_error tr i = Some e ->
    match e with
    | Acq t m => holder (firstn i tr) m = None
    | Rel t m => holder (firstn i tr) m = Some t
    | _ => True
    end.

Inductive hb (tr : list ev) : nat -> nat -> Prop :=
| hb_po i j e1 e2 : i < j -> nth_error tr i = Some e1 -> nth_error tr j = Some e2 -> thr e1 = thr e2 -> hb tr i j
| hb_sync i j t t' m : i < j -> nth_error tr i = Some (Rel t m) -> nth_error tr j = Some (Acq t' m) -> hb tr i j
| hb_fork i j t t' e : i < j -> nth_error tr i = Some (Fork t t') -> nth_error tr j = Some e -> thr e = t' -> hb tr i j
| hb_trans i j k : hb tr i j -> hb tr j k -> hb tr i k.

Definition conflict (e1 e2 : ev) : Prop :=
  match e1, e2 with
  | Acc t x w a, Acc t' x' w' a' => x = x' /\ t <> t' /\ (w = true \/ w' = true) /\ (a = false \/ a' = false)
  | _, _ => False
  end.
Definition race (tr : list ev) : Prop :=
  exists i j e1 e2, i < j /\ nth_error tr i = Some e1 /\ nth_error tr j = Some e2 /\ conflict e1 e2 /\ ~ hb tr i j.

(* disciplines *)
Definition guarded (tr : list ev) (x : loc) (m : mutex) : Prop :=
  forall i t w a, nth_error tr i = Some (Acc t x w a) -> holder (firstn i tr) m = Some t.
Definition all_atomic (tr : list ev) (x : loc) : Prop :=
  forall i t w a, nth_error tr i = Some (Acc t x w a) -> a = true.

Lemma firstn_S_nth {A} (l : list A) i e : nth_error l i = Some e -> firstn (S i) l = firstn i l ++ [e].
Proof.
  revert i; induction l as [|a l IH]; intros [|i] H; simpl in *; try discriminate.
  - now inversion H.
  - f_equal. now apply IH.
Qed.
Lemma holder_snoc tr e : holder (tr ++ [e]) = step_h (holder tr) e.
Proof. unfold holder. now rewrite fold_left_app. Qed.

(* if t holds m at i and someone else (or nobody) holds it at j >= i, t released it in between *)
Lemma released tr m t : wf tr -> forall j i, i <= j -> j <= length tr ->
  holder (firstn i tr) m = Some t -> holder (firstn j tr) m <> Some t ->
  exists k, i <= k < j /\ nth_error tr k = Some (Rel t m).
Proof.
  intros Hwf. induction j as [|j IH]; intros i Hij Hj Hi Hne.
  - replace i with 0 in Hi by lia. simpl in Hi. discriminate.
  - destruct (Nat.eq_dec i (S j)) as [->|Hlt]; [congruence|].
    destruct (nth_error tr j) as [e|] eqn:Ee; [|apply nth_error_None in Ee; lia].
    rewrite (firstn_S_nth _ _ _ Ee), holder_snoc in Hne.
    destruct ((fun (a b : option nat) => ltac:(decide equality; apply Nat.eq_dec) : {a = b} + {a <> b}) (holder (firstn j tr) m) (Some t)) as [Heq|Hneq].
    + (* still held by t at j: the event at j changed it *)
      pose proof (Hwf _ _ Ee) as Hw.
      destruct e as [t0 m0|t0 m0|t0 x w a|t0 t1]; simpl in Hne; try congruence.
      * destruct (Nat.eqb_spec m m0) as [->|]; [|congruence]. rewrite Heq in Hw. discriminate.
      * destruct (Nat.eqb_spec m m0) as [->|]; [|congruence]. rewrite Heq in Hw. inversion Hw; subst.
        exists j. split; [lia|assumption].
    + destruct (IH i) as (k & Hk & Hr); try lia; auto. exists k. split; [lia|assumption].
Qed.

Definition opt_dec (a b : option nat) : {a = b} + {a <> b}.
Proof. decide equality; apply Nat.eq_dec. Defined.

Lemma acquired tr m t' : forall j i, i <= j -> j <= length tr ->
  holder (firstn i tr) m <> Some t' -> holder (firstn j tr) m = Some t' ->
  exists k, i <= k < j /\ nth_error tr k = Some (Acq t' m).
Proof.
  induction j as [|j IH]; intros i Hij Hj Hi Hjj.
  - replace i with 0 in Hi by lia. simpl in *. congruence.
  - destruct (Nat.eq_dec i (S j)) as [->|Hlt]; [congruence|].
    destruct (nth_error tr j) as [e|] eqn:Ee; [|apply nth_error_None in Ee; lia].
    rewrite (firstn_S_nth _ _ _ Ee), holder_snoc in Hjj.
    destruct (opt_dec (holder (firstn j tr) m) (Some t')) as [Heq|Hneq].
    + destruct (IH i) as (k & Hk & Hr); try lia; auto. exists k. split; [lia|assumption].
    + destruct e as [t0 m0|t0 m0|t0 x w a|t0 t1]; simpl in Hjj; try congruence.
      * destruct (Nat.eqb_spec m m0) as [->|]; [|congruence]. inversion Hjj; subst. exists j. split; [lia|assumption].
      * destruct (Nat.eqb_spec m m0) as [->|]; congruence.
Qed.

Theorem guarded_no_race tr x m : wf tr -> guarded tr x m ->
  forall i j t t' w a w' a', i < j ->
    nth_error tr i = Some (Acc t x w a) -> nth_error tr j = Some (Acc t' x w' a') -> t <> t' -> hb tr i j.
Proof.
  intros Hwf Hg i j t t' w a w' a' Hij Ei Ej Hne.
  pose proof (Hg _ _ _ _ Ei) as Hi. pose proof (Hg _ _ _ _ Ej) as Hj.
  assert (Hjl : j < length tr) by (apply nth_error_Some; congruence).
  destruct (released tr m t Hwf j i) as (k & Hk & Hr); try lia; auto; [congruence|].
  (* after the release nobody holds m *)
  assert (Hk1 : holder (firstn (S k) tr) m = None).
  { rewrite (firstn_S_nth _ _ _ Hr), holder_snoc. simpl. now rewrite Nat.eqb_refl. }
  destruct (acquired tr m t' j (S k)) as (k' & Hk' & Ha); try lia; auto; [congruence|].
  assert (k <> i) by (intros ->; congruence).
  assert (k' <> j) by (intros ->; congruence).
  apply hb_trans with k; [eapply hb_po; eauto; lia|].
  apply hb_trans with k'; [eapply hb_sync; eauto; lia|].
  eapply hb_po; eauto. lia.
Qed.

Theorem lockset_sound tr : wf tr ->
  (forall x, (exists m, guarded tr x m) \/ all_atomic tr x) -> ~ race tr.
Proof.
  intros Hwf Hd (i & j & e1 & e2 & Hij & E1 & E2 & Hc & Hnhb).
  destruct e1 as [| |t x w a|]; try contradiction. destruct e2 as [| |t' x' w' a'|]; try contradiction.
  destruct Hc as (<- & Hne & _ & Hat).
  destruct (Hd x) as [(m & Hg)|Ha].
  - apply Hnhb. eapply guarded_no_race; eauto.
  - rewrite (Ha _ _ _ _ E1), (Ha _ _ _ _ E2) in Hat. destruct Hat; discriminate.
Qed.
Print Assumptions lockset_sound.
