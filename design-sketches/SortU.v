From Coq Require Import List Permutation Sorted Bool.
Import ListNotations.

Section U.
Variable key : Type.
Variable less : key -> key -> bool.
Definition lt a b := less a b = true.

Definition strict_on (l : list key) :=
  (forall a, In a l -> less a a = false) /\
  (forall a b c, In a l -> In b l -> In c l -> lt a b -> lt b c -> lt a c).

Lemma sorted_perm_unique_aux : forall l1 l2 l, 
  (forall x, In x l1 -> In x l) -> strict_on l ->
  Permutation l1 l2 -> StronglySorted lt l1 -> StronglySorted lt l2 -> l1 = l2.
Proof.
  induction l1 as [|a l1 IH]; intros l2 l Hsub (Hirr & Htr) Hp H1 H2.
  - apply Permutation_nil in Hp. now subst.
  - destruct l2 as [|b l2]; [apply Permutation_sym, Permutation_nil in Hp; discriminate|].
    inversion H1 as [|? ? H1s H1a]; subst. inversion H2 as [|? ? H2s H2b]; subst.
    assert (Hab : a = b).
    { assert (Inb : In b (a :: l1)) by (eapply Permutation_in; [apply Permutation_sym; exact Hp|now left]).
      assert (Ina : In a (b :: l2)) by (eapply Permutation_in; [exact Hp|now left]).
      destruct Inb as [->|Inb]; [reflexivity|]. destruct Ina as [->|Ina]; [reflexivity|].
      rewrite Forall_forall in H1a, H2b. pose proof (H1a _ Inb) as Lab. pose proof (H2b _ Ina) as Lba.
      assert (In a l) by (apply Hsub; now left). assert (In b l) by (apply Hsub; now right).
      pose proof (Htr a b a H H0 H Lab Lba) as Laa. unfold lt in Laa. rewrite (Hirr a H) in Laa. discriminate. }
    subst b. f_equal. apply (IH l2 l); auto.
    + intros x Hx. apply Hsub. now right.
    + split; auto.
    + eapply Permutation_cons_inv; eauto.
Qed.

Theorem sorted_perm_unique l l1 l2 : strict_on l ->
  Permutation l l1 -> Permutation l l2 -> StronglySorted lt l1 -> StronglySorted lt l2 -> l1 = l2.
Proof.
  intros Hs P1 P2 S1 S2. apply (sorted_perm_unique_aux l1 l2 l); auto.
  - intros x Hx. eapply Permutation_in; [apply Permutation_sym; exact P1|exact Hx].
  - etransitivity; [apply Permutation_sym; exact P1|exact P2].
Qed.
End U.
Print Assumptions sorted_perm_unique.
