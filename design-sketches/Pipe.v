From Coq Require Import List Arith Lia Permutation Bool.
Import ListNotations.

Section Pipe.
Variables (L K : Type).
Inductive cls := Unm | Ign | Mat (k : K).
Variable classify : L -> cls.

Definition batch := list L.

Inductive rstate := RNew (ok : bool) (bs : list batch) | RSend (bs : list batch) | RDone.
Inductive wstate := WIdle | WBusy (ls : list L) (out : list K) | WDone.

Record state := mk {
  rd : list rstate; sema : nat;
  ch : list batch; closed : bool;
  wk : list wstate;
  rch : list (list K); rclosed : bool;
  consumed : list K; cdone : bool;
  cR : nat; cM : nat; cI : nat; errs : nat;
  processed : list L   (* ghost *)
}.

Record cfg := { nreaders : nat; chcap : nat; rcap : nat }.
Variable c : cfg.

Definition key_of (l : L) : list K := match classify l with Mat k => [k] | _ => [] end.
Definition isM l := match classify l with Mat _ => 1 | _ => 0 end.
Definition isI l := match classify l with Ign => 1 | _ => 0 end.

Definition all_done_r (r : list rstate) := Forall (fun x => x = RDone) r.
Definition all_done_w (w : list wstate) := Forall (fun x => x = WDone) w.

Inductive step : state -> state -> Prop :=
| s_racq_ok : forall s r1 r2 bs, rd s = r1 ++ RNew true bs :: r2 -> sema s < nreaders c ->
    step s (mk (r1 ++ RSend bs :: r2) (S (sema s)) (ch s) (closed s) (wk s) (rch s) (rclosed s) (consumed s) (cdone s) (cR s) (cM s) (cI s) (errs s) (processed s))
| s_racq_fail : forall s r1 r2 bs, rd s = r1 ++ RNew false bs :: r2 -> sema s < nreaders c ->
    (* open fails: error counted, semaphore acquired and released, nothing read *)
    step s (mk (r1 ++ RDone :: r2) (sema s) (ch s) (closed s) (wk s) (rch s) (rclosed s) (consumed s) (cdone s) (cR s) (cM s) (cI s) (S (errs s)) (processed s))
| s_rsend : forall s r1 r2 b bs, rd s = r1 ++ RSend (b :: bs) :: r2 -> length (ch s) < chcap c -> closed s = false ->
    step s (mk (r1 ++ RSend bs :: r2) (sema s) (ch s ++ [b]) (closed s) (wk s) (rch s) (rclosed s) (consumed s) (cdone s) (cR s) (cM s) (cI s) (errs s) (processed s))
| s_rfin : forall s r1 r2, rd s = r1 ++ RSend [] :: r2 ->
    step s (mk (r1 ++ RDone :: r2) (pred (sema s)) (ch s) (closed s) (wk s) (rch s) (rclosed s) (consumed s) (cdone s) (cR s) (cM s) (cI s) (errs s) (processed s))
| s_close : forall s, all_done_r (rd s) -> closed s = false ->
    step s (mk (rd s) (sema s) (ch s) true (wk s) (rch s) (rclosed s) (consumed s) (cdone s) (cR s) (cM s) (cI s) (errs s) (processed s))
| s_wrecv : forall s w1 w2 b rest, wk s = w1 ++ WIdle :: w2 -> ch s = b :: rest ->
    step s (mk (rd s) (sema s) rest (closed s) (w1 ++ WBusy b [] :: w2) (rch s) (rclosed s) (consumed s) (cdone s) (cR s) (cM s) (cI s) (errs s) (processed s))
| s_wexit : forall s w1 w2, wk s = w1 ++ WIdle :: w2 -> ch s = [] -> closed s = true ->
    step s (mk (rd s) (sema s) (ch s) (closed s) (w1 ++ WDone :: w2) (rch s) (rclosed s) (consumed s) (cdone s) (cR s) (cM s) (cI s) (errs s) (processed s))
| s_wline : forall s w1 w2 l ls out, wk s = w1 ++ WBusy (l :: ls) out :: w2 ->
    step s (mk (rd s) (sema s) (ch s) (closed s) (w1 ++ WBusy ls (out ++ key_of l) :: w2) (rch s) (rclosed s) (consumed s) (cdone s)
               (S (cR s)) (cM s + isM l) (cI s + isI l) (errs s) (processed s ++ [l]))
| s_wsend : forall s w1 w2 o out, wk s = w1 ++ WBusy [] (o :: out) :: w2 -> length (rch s) < rcap c -> rclosed s = false ->
    step s (mk (rd s) (sema s) (ch s) (closed s) (w1 ++ WIdle :: w2) (rch s ++ [o :: out]) (rclosed s) (consumed s) (cdone s) (cR s) (cM s) (cI s) (errs s) (processed s))
| s_wskip : forall s w1 w2, wk s = w1 ++ WBusy [] [] :: w2 ->
    step s (mk (rd s) (sema s) (ch s) (closed s) (w1 ++ WIdle :: w2) (rch s) (rclosed s) (consumed s) (cdone s) (cR s) (cM s) (cI s) (errs s) (processed s))
| s_rclose : forall s, all_done_w (wk s) -> rclosed s = false ->
    step s (mk (rd s) (sema s) (ch s) (closed s) (wk s) (rch s) true (consumed s) (cdone s) (cR s) (cM s) (cI s) (errs s) (processed s))
| s_crecv : forall s m rest, rch s = m :: rest -> cdone s = false ->
    step s (mk (rd s) (sema s) (ch s) (closed s) (wk s) rest (rclosed s) (consumed s ++ m) (cdone s) (cR s) (cM s) (cI s) (errs s) (processed s))
| s_cdone : forall s, rch s = [] -> rclosed s = true -> cdone s = false ->
    step s (mk (rd s) (sema s) (ch s) (closed s) (wk s) (rch s) (rclosed s) (consumed s) true (cR s) (cM s) (cI s) (errs s) (processed s)).

(* ---- accounting ---- *)
Definition r_lines (r : rstate) : list L :=
  match r with RNew true bs => concat bs | RNew false _ => [] | RSend bs => concat bs | RDone => [] end.
Definition w_lines (w : wstate) : list L := match w with WBusy ls _ => ls | _ => [] end.
Definition w_out (w : wstate) : list K := match w with WBusy _ out => out | _ => [] end.

Definition pending (s : state) : list L :=
  flat_map r_lines (rd s) ++ concat (ch s) ++ flat_map w_lines (wk s).
Definition keys_inflight (s : state) : list K :=
  flat_map w_out (wk s) ++ concat (rch s) ++ consumed s.

Definition Inv (input : list L) (s : state) : Prop :=
  Permutation (pending s ++ processed s) input /\
  Permutation (keys_inflight s) (flat_map key_of (processed s)) /\
  cR s = length (processed s) /\
  cM s = list_sum (map isM (processed s)) /\
  cI s = list_sum (map isI (processed s)).

Lemma flat_map_mid {A B} (f : A -> list B) l1 x l2 :
  flat_map f (l1 ++ x :: l2) = flat_map f l1 ++ f x ++ flat_map f l2.
Proof. rewrite flat_map_app. reflexivity. Qed.

Lemma list_sum_app l1 l2 : list_sum (l1 ++ l2) = list_sum l1 + list_sum l2.
Proof. induction l1; simpl; lia. Qed.

Ltac perm_tac :=
  repeat rewrite ?flat_map_mid, ?concat_app, ?app_nil_r, <- ?app_assoc in *; simpl in *;
  repeat rewrite ?flat_map_mid, ?concat_app, ?app_nil_r, <- ?app_assoc in *.

Lemma inv_step input s s' : Inv input s -> step s s' -> Inv input s'.
Proof.
  intros (Hp & Hk & HR & HM & HI) Hs.
  inversion Hs; subst; unfold Inv, pending, keys_inflight in *; cbn [rd ch wk rch consumed processed cR cM cI] in *;
    try match goal with H : rd s = _ |- _ => rewrite H in * end;
    try match goal with H : wk s = _ |- _ => rewrite H in * end;
    try match goal with H : ch s = _ |- _ => rewrite H in * end;
    try match goal with H : rch s = _ |- _ => rewrite H in * end;
    perm_tac; repeat split; auto.
  all: try (rewrite ?app_length, ?map_app, ?list_sum_app, ?flat_map_app; simpl; lia).
  all: try (etransitivity; [| eassumption]).
  all: try (etransitivity; [| rewrite flat_map_app; simpl; rewrite app_nil_r; apply Permutation_app; [eassumption | reflexivity]]).
  all: repeat rewrite ?app_assoc.
  all: try solve [ apply Permutation_app_tail; repeat rewrite <- ?app_assoc;
                   repeat (apply Permutation_app_head); 
                   try apply Permutation_app_comm ].
Abort.
End Pipe.
