From Coq Require Import List Arith Lia Permutation Bool.
From AAC_tactics Require Import AAC Instances.
Import Instances.Lists.
Import ListNotations.

Section Pipe.
Variables (L K : Type).
Inductive cls := Unm | Ign | Mat (k : K).
Variable classify : L -> cls.

Definition batch := list L.

Inductive rstate := RNew (ok : bool) (bs : list batch) | RSend (bs : list batch) | RDone.
Inductive wstate := WIdle | WBusy (ls : list L) (out : list K) | WDone.

Record state := mk {
  rd : list rstate; sema : nat;
  ch : list batch; closed : bool;
  wk : list wstate;
  rch : list (list K); rclosed : bool;
  consumed : list K; cdone : bool;
  cR : nat; cM : nat; cI : nat; errs : nat;
  processed : list L   (* ghost *)
}.

Record cfg := { nreaders : nat; chcap : nat; rcap : nat }.
Variable c : cfg.

Definition key_of (l : L) : list K := match classify l with Mat k => [k] | _ => [] end.
Definition isM l := match classify l with Mat _ => 1 | _ => 0 end.
Definition isI l := match classify l with Ign => 1 | _ => 0 end.

Definition all_done_r (r : list rstate) := Forall (fun x => x = RDone) r.
Definition all_done_w (w : list wstate) := Forall (fun x => x = WDone) w.

Inductive step : state -> state -> Prop :=
| s_racq_ok : forall s r1 r2 bs, rd s = r1 ++ RNew true bs :: r2 -> sema s < nreaders c ->
    step s (mk (r1 ++ RSend bs :: r2) (S (sema s)) (ch s) (closed s) (wk s) (rch s) (rclosed s) (consumed s) (cdone s) (cR s) (cM s) (cI s) (errs s) (processed s))
| s_racq_fail : forall s r1 r2 bs, rd s = r1 ++ RNew false bs :: r2 -> sema s < nreaders c ->
    (* open fails: error counted, semaphore acquired and released, nothing read *)
    step s (mk (r1 ++ RDone :: r2) (sema s) (ch s) (closed s) (wk s) (rch s) (rclosed s) (consumed s) (cdone s) (cR s) (cM s) (cI s) (S (errs s)) (processed s))
| s_rsend : forall s r1 r2 b bs, rd s = r1 ++ RSend (b :: bs) :: r2 -> length (ch s) < chcap c -> closed s = false ->
    step s (mk (r1 ++ RSend bs :: r2) (sema s) (ch s ++ [b]) (closed s) (wk s) (rch s) (rclosed s) (consumed s) (cdone s) (cR s) (cM s) (cI s) (errs s) (processed s))
| s_rfin : forall s r1 r2, rd s = r1 ++ RSend [] :: r2 ->
    step s (mk (r1 ++ RDone :: r2) (pred (sema s)) (ch s) (closed s) (wk s) (rch s) (rclosed s) (consumed s) (cdone s) (cR s) (cM s) (cI s) (errs s) (processed s))
| s_close : forall s, all_done_r (rd s) -> closed s = false ->
    step s (mk (rd s) (sema s) (ch s) true (wk s) (rch s) (rclosed s) (consumed s) (cdone s) (cR s) (cM s) (cI s) (errs s) (processed s))
| s_wrecv : forall s w1 w2 b rest, wk s = w1 ++ WIdle :: w2 -> ch s = b :: rest ->
    step s (mk (rd s) (sema s) rest (closed s) (w1 ++ WBusy b [] :: w2) (rch s) (rclosed s) (consumed s) (cdone s) (cR s) (cM s) (cI s) (errs s) (processed s))
| s_wexit : forall s w1 w2, wk s = w1 ++ WIdle :: w2 -> ch s = [] -> closed s = true ->
    step s (mk (rd s) (sema s) (ch s) (closed s) (w1 ++ WDone :: w2) (rch s) (rclosed s) (consumed s) (cdone s) (cR s) (cM s) (cI s) (errs s) (processed s))
| s_wline : forall s w1 w2 l ls out, wk s = w1 ++ WBusy (l :: ls) out :: w2 ->
    step s (mk (rd s) (sema s) (ch s) (closed s) (w1 ++ WBusy ls (out ++ key_of l) :: w2) (rch s) (rclosed s) (consumed s) (cdone s)
               (S (cR s)) (cM s + isM l) (cI s + isI l) (errs s) (processed s ++ [l]))
| s_wsend : forall s w1 w2 o out, wk s = w1 ++ WBusy [] (o :: out) :: w2 -> length (rch s) < rcap c -> rclosed s = false ->
    step s (mk (rd s) (sema s) (ch s) (closed s) (w1 ++ WIdle :: w2) (rch s ++ [o :: out]) (rclosed s) (consumed s) (cdone s) (cR s) (cM s) (cI s) (errs s) (processed s))
| s_wskip : forall s w1 w2, wk s = w1 ++ WBusy [] [] :: w2 ->
    step s (mk (rd s) (sema s) (ch s) (closed s) (w1 ++ WIdle :: w2) (rch s) (rclosed s) (consumed s) (cdone s) (cR s) (cM s) (cI s) (errs s) (processed s))
| s_rclose : forall s, all_done_w (wk s) -> rclosed s = false ->
    step s (mk (rd s) (sema s) (ch s) (closed s) (wk s) (rch s) true (consumed s) (cdone s) (cR s) (cM s) (cI s) (errs s) (processed s))
| s_crecv : forall s m rest, rch s = m :: rest -> cdone s = false ->
    step s (mk (rd s) (sema s) (ch s) (closed s) (wk s) rest (rclosed s) (consumed s ++ m) (cdone s) (cR s) (cM s) (cI s) (errs s) (processed s))
| s_cdone : forall s, rch s = [] -> rclosed s = true -> cdone s = false ->
    step s (mk (rd s) (sema s) (ch s) (closed s) (wk s) (rch s) (rclosed s) (consumed s) true (cR s) (cM s) (cI s) (errs s) (processed s)).

(* ---- accounting ---- *)
Definition r_lines (r : rstate) : list L :=
  match r with RNew true bs => concat bs | RNew false _ => [] | RSend bs => concat bs | RDone => [] end.
Definition w_lines (w : wstate) : list L := match w with WBusy ls _ => ls | _ => [] end.
Definition w_out (w : wstate) : list K := match w with WBusy _ out => out | _ => [] end.

Definition pending (s : state) : list L :=
  flat_map r_lines (rd s) ++ concat (ch s) ++ flat_map w_lines (wk s).
Definition keys_inflight (s : state) : list K :=
  flat_map w_out (wk s) ++ concat (rch s) ++ consumed s.

Definition Inv (input : list L) (s : state) : Prop :=
  Permutation (pending s ++ processed s) input /\
  Permutation (keys_inflight s) (flat_map key_of (processed s)) /\
  cR s = length (processed s) /\
  cM s = list_sum (map isM (processed s)) /\
  cI s = list_sum (map isI (processed s)).

Lemma flat_map_mid {A B} (f : A -> list B) l1 x l2 :
  flat_map f (l1 ++ x :: l2) = flat_map f l1 ++ f x ++ flat_map f l2.
Proof. rewrite flat_map_app. reflexivity. Qed.

Lemma list_sum_app l1 l2 : list_sum (l1 ++ l2) = list_sum l1 + list_sum l2.
Proof. induction l1; simpl; lia. Qed.

Ltac perm_tac :=
  repeat rewrite ?flat_map_mid, ?concat_app, ?app_nil_r, <- ?app_assoc in *; simpl in *;
  repeat rewrite ?flat_map_mid, ?concat_app, ?app_nil_r, <- ?app_assoc in *.

Lemma inv_step input s s' : Inv input s -> step s s' -> Inv input s'.
Proof.
  intros (Hp & Hk & HR & HM & HI) Hs.
  inversion Hs; subst; unfold Inv, pending, keys_inflight in *; cbn [rd ch wk rch consumed processed cR cM cI] in *;
    try match goal with H : rd s = _ |- _ => rewrite H in * end;
    try match goal with H : wk s = _ |- _ => rewrite H in * end;
    try match goal with H : ch s = _ |- _ => rewrite H in * end;
    try match goal with H : rch s = _ |- _ => rewrite H in * end;
    perm_tac; repeat split; auto.
  all: try (rewrite ?app_length, ?map_app, ?list_sum_app, ?flat_map_app; simpl; lia).
  all: try (etransitivity; [| eassumption]).
  all: try (etransitivity; [| rewrite flat_map_app; simpl; rewrite app_nil_r; apply Permutation_app; [eassumption | reflexivity]]).
  all: repeat match goal with |- context [?x :: ?l] => lazymatch l with nil => fail | _ => change (x :: l) with ([x] ++ l) end end.
  all: try aac_reflexivity.
  all: try (rewrite <- Hk; aac_reflexivity).
Qed.



(* ---------- auxiliary invariants ---------- *)
Definition n_send (r : list rstate) := length (filter (fun x => match x with RSend _ => true | _ => false end) r).
Definition Aux (s : state) : Prop :=
  sema s = n_send (rd s) /\
  (closed s = true -> all_done_r (rd s)) /\
  (In WDone (wk s) -> closed s = true /\ ch s = []) /\
  (rclosed s = true -> all_done_w (wk s)) /\
  (cdone s = true -> rclosed s = true /\ rch s = []).

Lemma n_send_mid r1 x r2 : n_send (r1 ++ x :: r2) = n_send r1 + (match x with RSend _ => 1 | _ => 0 end) + n_send r2.
Proof. unfold n_send. rewrite filter_app, app_length. simpl. destruct x; simpl; lia. Qed.

Lemma all_done_r_mid r1 x r2 : all_done_r (r1 ++ x :: r2) -> x = RDone.
Proof. unfold all_done_r. rewrite Forall_app. intros (_ & H). now inversion H. Qed.
Lemma all_done_w_mid w1 x w2 : all_done_w (w1 ++ x :: w2) -> x = WDone.
Proof. unfold all_done_w. rewrite Forall_app. intros (_ & H). now inversion H. Qed.
Lemma all_done_r_set r1 x r2 : all_done_r (r1 ++ x :: r2) -> all_done_r (r1 ++ RDone :: r2).
Proof. unfold all_done_r. rewrite !Forall_app. intros (H1 & H2). split; auto. inversion H2; subst. constructor; auto. Qed.

Lemma in_mid_other {A} (y : A) l1 x x' l2 : In y (l1 ++ x' :: l2) -> y <> x' -> In y (l1 ++ x :: l2).
Proof. rewrite !in_app_iff. simpl. intros [H|[H|H]] Hn; auto. congruence. Qed.

Lemma aux_step s s' : Aux s -> step s s' -> Aux s'.
Proof.
  intros (Hs & Hc & Hw & Hrc & Hcd) Hst.
  inversion Hst; subst; unfold Aux; cbn [rd sema ch closed wk rch rclosed consumed cdone];
    try match goal with H : rd s = _ |- _ => rewrite H in * end;
    try match goal with H : wk s = _ |- _ => rewrite H in * end.
  all: rewrite ?n_send_mid in *; simpl in *.
  all: repeat split; intros; try lia; try tauto; try congruence.
  all: try (match goal with H : all_done_r _ |- all_done_r _ => exact (all_done_r_set _ _ _ H) end).
  all: try (match goal with Hx : closed _ = true |- _ => apply Hc in Hx; apply all_done_r_mid in Hx; discriminate end).
  all: try (match goal with Hx : closed _ = true |- all_done_r _ => apply Hc in Hx; exact (all_done_r_set _ _ _ Hx) end).
  all: try (match goal with Hx : rclosed _ = true |- _ => apply Hrc in Hx; apply all_done_w_mid in Hx; discriminate end).
  all: try (match goal with Hx : In WDone (_ ++ _ :: _) |- _ =>
              eapply (in_mid_other WDone) in Hx; [destruct (Hw Hx); congruence | discriminate] end).
  all: try (match goal with Hx : In WDone _ |- _ => destruct (Hw Hx); congruence end).
  all: try (match goal with Hx : cdone _ = true |- _ => destruct (Hcd Hx); congruence end).
Qed.


(* ---------- progress ---------- *)
Lemma wk_cases (w : list wstate) :
  (exists w1 ls out w2, w = w1 ++ WBusy ls out :: w2) \/
  (exists w1 w2, w = w1 ++ WIdle :: w2) \/ all_done_w w.
Proof.
  induction w as [|x w IH]; [right; right; constructor|].
  destruct x as [|ls out|].
  - right; left. exists [], w. reflexivity.
  - left. exists [], ls, out, w. reflexivity.
  - destruct IH as [(w1 & ls & out & w2 & ->)|[(w1 & w2 & ->)|H]].
    + left. exists (WDone :: w1), ls, out, w2. reflexivity.
    + right; left. exists (WDone :: w1), w2. reflexivity.
    + right; right. constructor; auto.
Qed.

Lemma rd_cases (r : list rstate) :
  (exists r1 bs r2, r = r1 ++ RSend bs :: r2) \/
  (n_send r = 0 /\ ((exists r1 ok bs r2, r = r1 ++ RNew ok bs :: r2) \/ all_done_r r)).
Proof.
  induction r as [|x r IH]; [right; split; [reflexivity|right; constructor]|].
  destruct x as [ok bs|bs|].
  - destruct IH as [(r1 & bs' & r2 & ->)|(Hn & _)].
    + left. exists (RNew ok bs :: r1), bs', r2. reflexivity.
    + right. split; [exact Hn|]. left. exists [], ok, bs, r. reflexivity.
  - left. exists [], bs, r. reflexivity.
  - destruct IH as [(r1 & bs' & r2 & ->)|(Hn & [(r1 & ok & bs & r2 & ->)|H])].
    + left. exists (RDone :: r1), bs', r2. reflexivity.
    + right. split; [exact Hn|]. left. exists (RDone :: r1), ok, bs, r2. reflexivity.
    + right. split; [exact Hn|]. right. constructor; auto.
Qed.

Definition cfg_ok := nreaders c >= 1 /\ chcap c >= 1 /\ rcap c >= 1.

Theorem progress s : cfg_ok -> Aux s -> cdone s = false -> exists s', step s s'.
Proof.
  intros (Hn & Hcc & Hrc) (Hs & Hc & Hw & Hrcl & Hcd) Hnd.
  destruct (rch s) as [|m rest] eqn:Erch; [|eexists; eapply s_crecv; eauto].
  destruct (rclosed s) eqn:Ercl; [eexists; eapply s_cdone; eauto|].
  destruct (wk_cases (wk s)) as [(w1 & ls & out & w2 & Ew)|[(w1 & w2 & Ew)|Hall]].
  - destruct ls as [|l ls].
    + destruct out as [|o out].
      * eexists; eapply s_wskip; eauto.
      * eexists; eapply s_wsend; eauto. rewrite Erch. simpl. lia.
    + eexists; eapply s_wline; eauto.
  - destruct (ch s) as [|b rest] eqn:Ech; [|eexists; eapply s_wrecv; eauto].
    destruct (closed s) eqn:Ecl; [eexists; eapply s_wexit; eauto|].
    destruct (rd_cases (rd s)) as [(r1 & bs & r2 & Er)|(Hns & [(r1 & ok & bs & r2 & Er)|Hall])].
    + destruct bs as [|b bs].
      * eexists; eapply s_rfin; eauto.
      * eexists; eapply s_rsend; eauto. rewrite Ech. simpl. lia.
    + destruct ok.
      * eexists; eapply s_racq_ok; eauto. lia.
      * eexists; eapply s_racq_fail; eauto. lia.
    + eexists; eapply s_close; eauto.
  - eexists; eapply s_rclose; eauto.
Qed.

(* ---------- what a finished run looks like ---------- *)
Definition nworkers_ok (s : state) := wk s <> [].

Lemma all_done_w_lines w : all_done_w w -> flat_map w_lines w = [] /\ flat_map w_out w = [].
Proof. induction 1 as [|x w Hx _ (IH1 & IH2)]; [auto|]. subst x. simpl. auto. Qed.
Lemma all_done_r_lines r : all_done_r r -> flat_map r_lines r = [].
Proof. induction 1 as [|x r Hx _ IH]; [auto|]. subst x. simpl. auto. Qed.

Theorem finished_all input s : Inv input s -> Aux s -> wk s <> [] -> cdone s = true ->
  Permutation (processed s) input /\
  Permutation (consumed s) (flat_map key_of input) /\
  cR s = length input /\ cM s = list_sum (map isM input) /\ cI s = list_sum (map isI input).
Proof.
  intros (Hp & Hk & HR & HM & HI) (Hs & Hc & Hw & Hrcl & Hcd) Hne Hd.
  destruct (Hcd Hd) as (Hrc & Hrch). pose proof (Hrcl Hrc) as Hall.
  assert (Hin : In WDone (wk s)).
  { destruct (wk s) as [|x w]; [congruence|]. inversion Hall; subst. now left. }
  destruct (Hw Hin) as (Hcl & Hch). pose proof (Hc Hcl) as Hallr.
  destruct (all_done_w_lines _ Hall) as (Hwl & Hwo).
  unfold pending, keys_inflight in *. rewrite (all_done_r_lines _ Hallr), Hch, Hwl in Hp. simpl in Hp.
  rewrite Hwo, Hrch in Hk. simpl in Hk.
  assert (Hkk : Permutation (flat_map key_of (processed s)) (flat_map key_of input)).
  { clear -Hp. induction Hp; simpl; auto.
    - now apply Permutation_app_head.
    - rewrite !app_assoc. apply Permutation_app_tail. apply Permutation_app_comm.
    - etransitivity; eauto. }
  assert (Hsum : forall f : L -> nat, list_sum (map f (processed s)) = list_sum (map f input)).
  { intros f. clear -Hp. induction Hp; simpl; auto; lia. }
  repeat split; auto.
  - etransitivity; eauto.
  - rewrite HR. now apply Permutation_length.
  - rewrite HM. apply Hsum.
  - rewrite HI. apply Hsum.
Qed.

(* ---------- from the initial state ---------- *)
Definition init (srcs : list (bool * list batch)) (nw : nat) : state :=
  mk (map (fun x : bool * list batch => RNew (fst x) (snd x)) srcs) 0 [] false (repeat WIdle nw) [] false [] false 0 0 0 0 [].
Definition input_of (srcs : list (bool * list batch)) : list L :=
  flat_map (fun x : bool * list batch => if fst x then concat (snd x) else []) srcs.

Inductive reach (s0 : state) : state -> Prop :=
| reach0 : reach s0 s0
| reachS s s' : reach s0 s -> step s s' -> reach s0 s'.

Lemma init_inv srcs nw : Inv (input_of srcs) (init srcs nw) /\ Aux (init srcs nw).
Proof.
  split.
  - unfold Inv, pending, keys_inflight, init; cbn [rd ch wk rch consumed processed cR cM cI].
    assert (E1 : flat_map r_lines (map (fun x : bool * list batch => RNew (fst x) (snd x)) srcs) = input_of srcs).
    { unfold input_of. induction srcs as [|[ok bs] srcs IH]; simpl; [reflexivity|]. rewrite IH. destruct ok; reflexivity. }
    assert (E2 : forall n, flat_map w_lines (repeat WIdle n) = [] /\ flat_map w_out (repeat WIdle n) = []).
    { induction n; simpl; auto. }
    rewrite E1. destruct (E2 nw) as (-> & ->). simpl. rewrite !app_nil_r. repeat split; auto.
  - unfold Aux, init; cbn [rd sema ch closed wk rch rclosed cdone].
    split; [unfold n_send; induction srcs; simpl; auto|].
    split; [discriminate|]. split; [|split; discriminate].
    intros Hx. apply repeat_spec in Hx. discriminate.
Qed.

Lemma wk_nonempty_step s s' : step s s' -> wk s <> [] -> wk s' <> [].
Proof.
  intros Hst Hne. inversion Hst; subst; cbn [wk]; auto;
    match goal with |- ?a ++ _ :: _ <> [] => destruct a; discriminate end.
Qed.

(* the same, stated so that the induction goes through without terminality in the way *)
Lemma reach_inv srcs nw s : nw >= 1 -> reach (init srcs nw) s ->
  Inv (input_of srcs) s /\ Aux s /\ wk s <> [].
Proof.
  intros Hnw Hr. induction Hr as [|s s' Hr (I1 & I2 & I3) Hst].
  - destruct (init_inv srcs nw). split; [assumption|]. split; [assumption|]. unfold init; cbn [wk]. destruct nw; [lia|simpl; discriminate].
  - split; [eapply inv_step; eauto|]. split; [eapply aux_step; eauto|]. eapply wk_nonempty_step; eauto.
Qed.

Theorem C01_final_sketch srcs nw s : cfg_ok -> nw >= 1 ->
  reach (init srcs nw) s -> (forall s', ~ step s s') ->
  cdone s = true /\
  Permutation (consumed s) (flat_map key_of (input_of srcs)) /\
  cR s = length (input_of srcs) /\
  cM s = list_sum (map isM (input_of srcs)) /\ cI s = list_sum (map isI (input_of srcs)).
Proof.
  intros Hcfg Hnw Hr Hterm. destruct (reach_inv _ _ _ Hnw Hr) as (I1 & I2 & I3).
  destruct (cdone s) eqn:Hd.
  - split; [reflexivity|]. destruct (finished_all _ _ I1 I2 I3 Hd) as (_ & H2 & H3 & H4 & H5). auto.
  - exfalso. destruct (progress s Hcfg I2 Hd) as (s' & Hs). exact (Hterm s' Hs).
Qed.
End Pipe.
Print Assumptions C01_final_sketch.
Print Assumptions finished_all.
Print Assumptions progress.
